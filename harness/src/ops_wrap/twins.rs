//! Dispatch table 2: the core functions (provider-taking twins of the compiled API, called with a FRESH
//! `FsTzdbProvider` per call, and the `temporal_rs` methods the FFI functions name), keyed `<Type>.<core fn>`.
//! Every entry calls exactly the function it is named after.
use super::compiled::j_relto;
use super::*;
use temporal_rs::tzdb::FsTzdbProvider;

fn fresh() -> FsTzdbProvider { FsTzdbProvider::default() }

pub fn call(key: &str, a: &Value) -> Option<Value> {
    let (ty, m) = key.split_once('.')?;
    match ty {
        "ZonedDateTime" => zdt(m, a),
        "Duration" => dur(m, a),
        "TimeDuration" => tdur(m, a),
        "DateDuration" => ddur(m, a),
        "PartialDuration" => pdur(m, a),
        "Instant" => inst(m, a),
        "PlainDate" => date(m, a),
        "PlainDateTime" => pdt(m, a),
        "PlainTime" => time(m, a),
        "PlainYearMonth" => ym(m, a),
        "PlainMonthDay" => md(m, a),
        "Calendar" => cal(m, a),
        "AnyCalendarKind" => super::enums::kind_core(m, a),
        "RelativeTo" => Some(match m {
            "try_from_str_with_provider" => run(|| RelativeTo::try_from_str_with_provider(js::s(a, "src"), &fresh()), j_relto),
            _ => return None,
        }),
        "enum" => super::enums::core(m, a),
        _ => None,
    }
}

fn zdt(m: &str, a: &Value) -> Option<Value> {
    let z = || a_zdt(&a["recv"]);
    let p = fresh();
    Some(match m {
        "year_with_provider" => run(|| z()?.year_with_provider(&p), ji),
        "month_with_provider" => run(|| z()?.month_with_provider(&p), ji),
        "month_code_with_provider" => run(|| z()?.month_code_with_provider(&p), |c| json!(c.as_str())),
        "day_with_provider" => run(|| z()?.day_with_provider(&p), ji),
        "hour_with_provider" => run(|| z()?.hour_with_provider(&p), ji),
        "minute_with_provider" => run(|| z()?.minute_with_provider(&p), ji),
        "second_with_provider" => run(|| z()?.second_with_provider(&p), ji),
        "millisecond_with_provider" => run(|| z()?.millisecond_with_provider(&p), ji),
        "microsecond_with_provider" => run(|| z()?.microsecond_with_provider(&p), ji),
        "nanosecond_with_provider" => run(|| z()?.nanosecond_with_provider(&p), ji),
        "offset_with_provider" => run(|| z()?.offset_with_provider(&p), js_),
        "offset_nanoseconds_with_provider" => run(|| z()?.offset_nanoseconds_with_provider(&p), j_i64),
        "era_with_provider" => run(|| z()?.era_with_provider(&p), j_era),
        "era_year_with_provider" => run(|| z()?.era_year_with_provider(&p), jo),
        "day_of_week_with_provider" => run(|| z()?.day_of_week_with_provider(&p), ji),
        "day_of_year_with_provider" => run(|| z()?.day_of_year_with_provider(&p), ji),
        "week_of_year_with_provider" => run(|| z()?.week_of_year_with_provider(&p), jo),
        "year_of_week_with_provider" => run(|| z()?.year_of_week_with_provider(&p), jo),
        "days_in_week_with_provider" => run(|| z()?.days_in_week_with_provider(&p), ji),
        "days_in_month_with_provider" => run(|| z()?.days_in_month_with_provider(&p), ji),
        "days_in_year_with_provider" => run(|| z()?.days_in_year_with_provider(&p), ji),
        "months_in_year_with_provider" => run(|| z()?.months_in_year_with_provider(&p), ji),
        "in_leap_year_with_provider" => run(|| z()?.in_leap_year_with_provider(&p), jb),
        "hours_in_day_with_provider" => run(|| z()?.hours_in_day_with_provider(&p), ji),
        "get_time_zone_transition_with_provider" => run(|| z()?.get_time_zone_transition_with_provider(dir_name(js::s(a, "dir")), &p), j_ozdt),
        "with_plain_time_and_provider" => run(|| z()?.with_plain_time_and_provider(a_time(&a["time"])?, &p), j_zdt),
        "add_with_provider" => run(|| z()?.add_with_provider(&a_dur(&a["dur"])?, a_ovf_opt(a), &p), j_zdt),
        "subtract_with_provider" => run(|| z()?.subtract_with_provider(&a_dur(&a["dur"])?, a_ovf_opt(a), &p), j_zdt),
        "since_with_provider" => run(|| z()?.since_with_provider(&a_zdt(&a["other"])?, a_settings(&a["st"])?, &p), j_dur),
        "until_with_provider" => run(|| z()?.until_with_provider(&a_zdt(&a["other"])?, a_settings(&a["st"])?, &p), j_dur),
        "start_of_day_with_provider" => run(|| z()?.start_of_day_with_provider(&p), j_zdt),
        "to_plain_date_with_provider" => run(|| z()?.to_plain_date_with_provider(&p), j_date),
        "to_plain_time_with_provider" => run(|| z()?.to_plain_time_with_provider(&p), j_time),
        "to_plain_datetime_with_provider" => run(|| z()?.to_plain_datetime_with_provider(&p), j_dt),
        "to_ixdtf_string_with_provider" => run(|| z()?.to_ixdtf_string_with_provider(doff_name(js::s(a, "doff")), dtz_name(js::s(a, "dtz")), dcal_name(js::s(a, "dcal")), a_tsro(&a["opts"]), &p), js_),
        "from_str_with_provider" => run(|| ZonedDateTime::from_str_with_provider(js::s(a, "src"), disamb_name(js::s(a, "dis")), offdis_name(js::s(a, "offopt")), &p), j_zdt),
        "to_string_with_provider" => run(|| z()?.to_string_with_provider(&p), js_),
        _ => return None,
    })
}

fn fn_(a: &Value, n: usize) -> TemporalResult<Vec<FiniteF64>> { f_array(a, "f", n).into_iter().map(FiniteF64::try_from).collect() }
fn f10(a: &Value) -> TemporalResult<Vec<FiniteF64>> { fn_(a, 10) }
fn a_tdur(v: &Value) -> TemporalResult<TimeDuration> {
    let f = fn_(&json!({"f": v}), 6)?;
    TimeDuration::new(f[0], f[1], f[2], f[3], f[4], f[5])
}
fn a_ddur(v: &Value) -> TemporalResult<DateDuration> {
    let f = fn_(&json!({"f": v}), 4)?;
    DateDuration::new(f[0], f[1], f[2], f[3])
}
/// a TimeDuration has no getters of its own: observe it as the time part of a Duration
pub fn j_tdur(t: &TimeDuration) -> Value {
    json!({"h": big_f64(t.hours.as_inner()), "mi": big_f64(t.minutes.as_inner()), "s": big_f64(t.seconds.as_inner()),
           "ms": big_f64(t.milliseconds.as_inner()), "us": big_f64(t.microseconds.as_inner()), "ns": big_f64(t.nanoseconds.as_inner())})
}
/// a DateDuration has no getters in the FFI: only its sign is observable there, so only the sign is compared
pub fn j_ddur(t: &DateDuration) -> Value { json!({"sign": t.sign() as i8}) }

fn dur(m: &str, a: &Value) -> Option<Value> {
    let d = || a_dur(&a["recv"]);
    let p = fresh();
    let jf = |f: &FiniteF64| big_f64(f.as_inner());
    Some(match m {
        "round_with_provider" => run(|| d()?.round_with_provider(a_rounding(&a["opts"])?, a_relto(&a["rel"])?, &p), j_dur),
        "compare_with_provider" => run(|| d()?.compare_with_provider(&a_dur(&a["other"])?, a_relto(&a["rel"])?, &p), |o| p_ord(*o)),
        "total_with_provider" => run(|| d()?.total_with_provider(unit_name(js::s(a, "unit")), a_relto(&a["rel"])?, &p), |f| j_f64(f.as_inner())),
        "new" => run(|| { let f = f10(a)?; Duration::new(f[0], f[1], f[2], f[3], f[4], f[5], f[6], f[7], f[8], f[9]) }, j_dur),
        "from_day_and_time" => run(|| Ok(Duration::from_day_and_time(FiniteF64::try_from(f_scalar(a, "day"))?, &a_tdur(&a["time"])?)), j_dur),
        "from_partial_duration" => run(|| Duration::from_partial_duration(a_pdur(&a["partial"])?), j_dur),
        "is_time_within_range" => run(|| Ok(d()?.is_time_within_range()), jb),
        "time" => run(|| Ok(*d()?.time()), j_tdur),
        "date" => run(|| Ok(*d()?.date()), j_ddur),
        "years" => run(|| Ok(d()?.years()), jf),
        "months" => run(|| Ok(d()?.months()), jf),
        "weeks" => run(|| Ok(d()?.weeks()), jf),
        "days" => run(|| Ok(d()?.days()), jf),
        "hours" => run(|| Ok(d()?.hours()), jf),
        "minutes" => run(|| Ok(d()?.minutes()), jf),
        "seconds" => run(|| Ok(d()?.seconds()), jf),
        "milliseconds" => run(|| Ok(d()?.milliseconds()), jf),
        "microseconds" => run(|| Ok(d()?.microseconds()), jf),
        "nanoseconds" => run(|| Ok(d()?.nanoseconds()), jf),
        "sign" => run(|| Ok(d()?.sign()), j_sign),
        "is_zero" => run(|| Ok(d()?.is_zero()), jb),
        "abs" => run(|| Ok(d()?.abs()), j_dur),
        "negated" => run(|| Ok(d()?.negated()), j_dur),
        "add" => run(|| d()?.add(&a_dur(&a["other"])?), j_dur),
        "subtract" => run(|| d()?.subtract(&a_dur(&a["other"])?), j_dur),
        _ => return None,
    })
}
fn tdur(m: &str, a: &Value) -> Option<Value> {
    let t = || a_tdur(&a["recv"]);
    Some(match m {
        "new" => run(|| { let f = fn_(a, 6)?; TimeDuration::new(f[0], f[1], f[2], f[3], f[4], f[5]) }, j_tdur),
        "abs" => run(|| Ok(t()?.abs()), j_tdur),
        "negated" => run(|| Ok(t()?.negated()), j_tdur),
        "is_within_range" => run(|| Ok(t()?.is_within_range()), jb),
        "sign" => run(|| Ok(t()?.sign()), j_sign),
        _ => return None,
    })
}
fn ddur(m: &str, a: &Value) -> Option<Value> {
    let t = || a_ddur(&a["recv"]);
    Some(match m {
        "new" => run(|| { let f = fn_(a, 4)?; DateDuration::new(f[0], f[1], f[2], f[3]) }, j_ddur),
        "abs" => run(|| Ok(t()?.abs()), j_ddur),
        "negated" => run(|| Ok(t()?.negated()), j_ddur),
        "sign" => run(|| Ok(t()?.sign()), j_sign),
        _ => return None,
    })
}
fn pdur(m: &str, a: &Value) -> Option<Value> {
    Some(match m {
        "is_empty" => run(|| Ok(a_pdur(&a["partial"])?.is_empty()), jb),
        _ => return None,
    })
}

fn inst(m: &str, a: &Value) -> Option<Value> {
    let i = || a_inst(&a["recv"]);
    Some(match m {
        "to_ixdtf_string_with_provider" => run(|| {
            let tz = match js::opt_s(a, "tz") { Some(s) => Some(a_tz(s)?), None => None };
            i()?.to_ixdtf_string_with_provider(tz.as_ref(), a_tsro(&a["opts"]), &fresh())
        }, js_),
        "try_new" => run(|| Instant::try_new(ens(&a["ns"])), j_inst),
        "from_epoch_milliseconds" => run(|| Instant::from_epoch_milliseconds(num(&a["ms"]) as i64), j_inst),
        "add" => run(|| i()?.add(a_dur(&a["dur"])?), j_inst),
        "add_time_duration" => run(|| i()?.add_time_duration(&a_tdur(&a["tdur"])?), j_inst),
        "subtract" => run(|| i()?.subtract(a_dur(&a["dur"])?), j_inst),
        "subtract_time_duration" => run(|| i()?.subtract_time_duration(&a_tdur(&a["tdur"])?), j_inst),
        "since" => run(|| i()?.since(&a_inst(&a["other"])?, a_settings(&a["st"])?), j_dur),
        "until" => run(|| i()?.until(&a_inst(&a["other"])?, a_settings(&a["st"])?), j_dur),
        "round" => run(|| i()?.round(a_rounding(&a["opts"])?), j_inst),
        "epoch_milliseconds" => run(|| Ok(i()?.epoch_milliseconds()), j_i64),
        "epoch_nanoseconds" => run(|| Ok(i()?.epoch_nanoseconds().as_i128()), |n| j_eparts(*n)),
        _ => return None,
    })
}

fn ymd(a: &Value) -> (i32, u8, u8) { (js::i(a, "y") as i32, js::i(a, "m") as u8, js::i(a, "d") as u8) }
fn hms(a: &Value) -> (u8, u8, u8, u16, u16, u16) {
    (js::i(a, "h") as u8, js::i(a, "mi") as u8, js::i(a, "s") as u8, js::i(a, "ms") as u16, js::i(a, "us") as u16, js::i(a, "ns") as u16)
}

fn date(m: &str, a: &Value) -> Option<Value> {
    let d = || a_date(&a["recv"]);
    Some(match m {
        "new" => run(|| { let (y, mo, dd) = ymd(&a["f"]); PlainDate::new(y, mo, dd, a_cal(&a["f"])?) }, j_date),
        "try_new" => run(|| { let (y, mo, dd) = ymd(&a["f"]); PlainDate::try_new(y, mo, dd, a_cal(&a["f"])?) }, j_date),
        "new_with_overflow" => run(|| { let (y, mo, dd) = ymd(&a["f"]); PlainDate::new_with_overflow(y, mo, dd, a_cal(&a["f"])?, a_ovf(a)) }, j_date),
        "from_partial" => run(|| PlainDate::from_partial(a_pdate(&a["partial"])?, a_ovf_opt(a)), j_date),
        "with" => run(|| d()?.with(a_pdate(&a["partial"])?, a_ovf_opt(a)), j_date),
        "with_calendar" => run(|| d()?.with_calendar(Calendar::from_str(js::s(a, "cal"))?), j_date),
        "iso_year" => run(|| Ok(d()?.iso_year()), ji),
        "iso_month" => run(|| Ok(d()?.iso_month()), ji),
        "iso_day" => run(|| Ok(d()?.iso_day()), ji),
        "calendar" => run(|| Ok(d()?.calendar().identifier().to_string()), js_),
        "is_valid" => run(|| Ok(d()?.is_valid()), jb),
        "add" => run(|| d()?.add(&a_dur(&a["dur"])?, a_ovf_opt(a)), j_date),
        "subtract" => run(|| d()?.subtract(&a_dur(&a["dur"])?, a_ovf_opt(a)), j_date),
        "until" => run(|| d()?.until(&a_date(&a["other"])?, a_settings(&a["st"])?), j_dur),
        "since" => run(|| d()?.since(&a_date(&a["other"])?, a_settings(&a["st"])?), j_dur),
        "year" => run(|| Ok(d()?.year()), ji),
        "month" => run(|| Ok(d()?.month()), ji),
        "month_code" => run(|| Ok(d()?.month_code()), |c| json!(c.as_str())),
        "day" => run(|| Ok(d()?.day()), ji),
        "day_of_week" => run(|| Ok(d()?.day_of_week()), ji),
        "day_of_year" => run(|| Ok(d()?.day_of_year()), ji),
        "week_of_year" => run(|| d()?.week_of_year(), jo),
        "year_of_week" => run(|| d()?.year_of_week(), jo),
        "days_in_week" => run(|| d()?.days_in_week(), ji),
        "days_in_month" => run(|| Ok(d()?.days_in_month()), ji),
        "days_in_year" => run(|| Ok(d()?.days_in_year()), ji),
        "months_in_year" => run(|| Ok(d()?.months_in_year()), ji),
        "in_leap_year" => run(|| Ok(d()?.in_leap_year()), jb),
        "era" => run(|| Ok(d()?.era()), j_era),
        "era_year" => run(|| Ok(d()?.era_year()), jo),
        "to_plain_date_time" => run(|| { let t = if js::has(a, "time") { Some(a_time(&a["time"])?) } else { None }; d()?.to_plain_date_time(t) }, j_dt),
        "to_plain_month_day" => run(|| d()?.to_plain_month_day(), j_md),
        "to_plain_year_month" => run(|| d()?.to_plain_year_month(), j_ym),
        "to_ixdtf_string" => run(|| Ok(d()?.to_ixdtf_string(dcal_name(js::s(a, "dcal")))), js_),
        _ => return None,
    })
}

fn a_pdt_partial(v: &Value) -> TemporalResult<PartialDateTime> { Ok(PartialDateTime { date: a_pdate(&v["date"])?, time: a_ptime(&v["time"]) }) }

fn pdt(m: &str, a: &Value) -> Option<Value> {
    let d = || a_dt(&a["recv"]);
    Some(match m {
        "to_zoned_date_time_with_provider" => run(|| d()?.to_zoned_date_time_with_provider(&a_tz(js::s(a, "tz"))?, disamb_name(js::s(a, "dis")), &fresh()), j_zdt),
        "new" => run(|| { let f = &a["f"]; let (y, mo, dd) = ymd(f); let (h, mi, s, ms, us, ns) = hms(f); PlainDateTime::new(y, mo, dd, h, mi, s, ms, us, ns, a_cal(f)?) }, j_dt),
        "try_new" => run(|| { let f = &a["f"]; let (y, mo, dd) = ymd(f); let (h, mi, s, ms, us, ns) = hms(f); PlainDateTime::try_new(y, mo, dd, h, mi, s, ms, us, ns, a_cal(f)?) }, j_dt),
        "from_partial" => run(|| PlainDateTime::from_partial(a_pdt_partial(&a["partial"])?, a_ovf_opt(a)), j_dt),
        "with" => run(|| d()?.with(a_pdt_partial(&a["partial"])?, a_ovf_opt(a)), j_dt),
        "with_time" => run(|| d()?.with_time(a_time(&a["time"])?), j_dt),
        "with_calendar" => run(|| d()?.with_calendar(Calendar::from_str(js::s(a, "cal"))?), j_dt),
        "iso_year" => run(|| Ok(d()?.iso_year()), ji),
        "iso_month" => run(|| Ok(d()?.iso_month()), ji),
        "iso_day" => run(|| Ok(d()?.iso_day()), ji),
        "hour" => run(|| Ok(d()?.hour()), ji),
        "minute" => run(|| Ok(d()?.minute()), ji),
        "second" => run(|| Ok(d()?.second()), ji),
        "millisecond" => run(|| Ok(d()?.millisecond()), ji),
        "microsecond" => run(|| Ok(d()?.microsecond()), ji),
        "nanosecond" => run(|| Ok(d()?.nanosecond()), ji),
        "calendar" => run(|| Ok(d()?.calendar().identifier().to_string()), js_),
        "year" => run(|| Ok(d()?.year()), ji),
        "month" => run(|| Ok(d()?.month()), ji),
        "month_code" => run(|| Ok(d()?.month_code()), |c| json!(c.as_str())),
        "day" => run(|| Ok(d()?.day()), ji),
        "day_of_week" => run(|| Ok(d()?.day_of_week()), ji),
        "day_of_year" => run(|| Ok(d()?.day_of_year()), ji),
        "week_of_year" => run(|| d()?.week_of_year(), jo),
        "year_of_week" => run(|| d()?.year_of_week(), jo),
        "days_in_week" => run(|| d()?.days_in_week(), ji),
        "days_in_month" => run(|| Ok(d()?.days_in_month()), ji),
        "days_in_year" => run(|| Ok(d()?.days_in_year()), ji),
        "months_in_year" => run(|| Ok(d()?.months_in_year()), ji),
        "in_leap_year" => run(|| Ok(d()?.in_leap_year()), jb),
        "era" => run(|| Ok(d()?.era()), j_era),
        "era_year" => run(|| Ok(d()?.era_year()), jo),
        "add" => run(|| d()?.add(&a_dur(&a["dur"])?, a_ovf_opt(a)), j_dt),
        "subtract" => run(|| d()?.subtract(&a_dur(&a["dur"])?, a_ovf_opt(a)), j_dt),
        "until" => run(|| d()?.until(&a_dt(&a["other"])?, a_settings(&a["st"])?), j_dur),
        "since" => run(|| d()?.since(&a_dt(&a["other"])?, a_settings(&a["st"])?), j_dur),
        "round" => run(|| d()?.round(a_rounding(&a["opts"])?), j_dt),
        "to_plain_date" => run(|| d()?.to_plain_date(), j_date),
        "to_plain_time" => run(|| d()?.to_plain_time(), j_time),
        "to_ixdtf_string" => run(|| d()?.to_ixdtf_string(a_tsro(&a["opts"]), dcal_name(js::s(a, "dcal"))), js_),
        _ => return None,
    })
}

fn time(m: &str, a: &Value) -> Option<Value> {
    let t = || a_time(&a["recv"]);
    Some(match m {
        "new" => run(|| { let (h, mi, s, ms, us, ns) = hms(&a["f"]); PlainTime::new(h, mi, s, ms, us, ns) }, j_time),
        "try_new" => run(|| { let (h, mi, s, ms, us, ns) = hms(&a["f"]); PlainTime::try_new(h, mi, s, ms, us, ns) }, j_time),
        "from_partial" => run(|| PlainTime::from_partial(a_ptime(&a["partial"]), a_ovf_opt(a)), j_time),
        "with" => run(|| t()?.with(a_ptime(&a["partial"]), a_ovf_opt(a)), j_time),
        "hour" => run(|| Ok(t()?.hour()), ji),
        "minute" => run(|| Ok(t()?.minute()), ji),
        "second" => run(|| Ok(t()?.second()), ji),
        "millisecond" => run(|| Ok(t()?.millisecond()), ji),
        "microsecond" => run(|| Ok(t()?.microsecond()), ji),
        "nanosecond" => run(|| Ok(t()?.nanosecond()), ji),
        "add" => run(|| t()?.add(&a_dur(&a["dur"])?), j_time),
        "subtract" => run(|| t()?.subtract(&a_dur(&a["dur"])?), j_time),
        "add_time_duration" => run(|| t()?.add_time_duration(&a_tdur(&a["tdur"])?), j_time),
        "subtract_time_duration" => run(|| t()?.subtract_time_duration(&a_tdur(&a["tdur"])?), j_time),
        "until" => run(|| t()?.until(&a_time(&a["other"])?, a_settings(&a["st"])?), j_dur),
        "since" => run(|| t()?.since(&a_time(&a["other"])?, a_settings(&a["st"])?), j_dur),
        "round" => run(|| t()?.round(unit_name(js::s(a, "unit")), if js::has(a, "inc") { Some(a_f64(&a["inc"])) } else { None }, js::opt_s(a, "mode").map(mode_name)), j_time),
        "to_ixdtf_string" => run(|| t()?.to_ixdtf_string(a_tsro(&a["opts"])), js_),
        _ => return None,
    })
}

fn opt_u8(a: &Value, k: &str) -> Option<u8> { a.get(k).and_then(|x| x.as_i64()).map(|x| x as u8) }
fn opt_i32(a: &Value, k: &str) -> Option<i32> { a.get(k).and_then(|x| x.as_i64()).map(|x| x as i32) }

fn ym(m: &str, a: &Value) -> Option<Value> {
    let d = || a_ym(&a["recv"]);
    Some(match m {
        "new_with_overflow" => run(|| { let f = &a["f"]; PlainYearMonth::new_with_overflow(js::i(f, "y") as i32, js::i(f, "m") as u8, opt_u8(f, "rd"), a_cal(f)?, a_ovf(a)) }, j_ym),
        "with" => run(|| d()?.with(a_pdate(&a["partial"])?, a_ovf_opt(a)), j_ym),
        "iso_year" => run(|| Ok(d()?.iso_year()), ji),
        "padded_iso_year_string" => run(|| Ok(d()?.padded_iso_year_string()), js_),
        "iso_month" => run(|| Ok(d()?.iso_month()), ji),
        "year" => run(|| Ok(d()?.year()), ji),
        "month" => run(|| Ok(d()?.month()), ji),
        "month_code" => run(|| Ok(d()?.month_code()), |c| json!(c.as_str())),
        "in_leap_year" => run(|| Ok(d()?.in_leap_year()), jb),
        "days_in_month" => run(|| Ok(d()?.days_in_month()), ji),
        "days_in_year" => run(|| Ok(d()?.days_in_year()), ji),
        "months_in_year" => run(|| Ok(d()?.months_in_year()), ji),
        "era" => run(|| Ok(d()?.era()), j_era),
        "era_year" => run(|| Ok(d()?.era_year()), jo),
        "calendar" => run(|| Ok(d()?.calendar().identifier().to_string()), js_),
        "add" => run(|| d()?.add(&a_dur(&a["dur"])?, a_ovf(a)), j_ym),
        "subtract" => run(|| d()?.subtract(&a_dur(&a["dur"])?, a_ovf(a)), j_ym),
        "until" => run(|| d()?.until(&a_ym(&a["other"])?, a_settings(&a["st"])?), j_dur),
        "since" => run(|| d()?.since(&a_ym(&a["other"])?, a_settings(&a["st"])?), j_dur),
        "to_plain_date" => run(|| d()?.to_plain_date(), j_date),
        _ => return None,
    })
}

fn md(m: &str, a: &Value) -> Option<Value> {
    let d = || a_md(&a["recv"]);
    Some(match m {
        "new_with_overflow" => run(|| { let f = &a["f"]; PlainMonthDay::new_with_overflow(js::i(f, "m") as u8, js::i(f, "d") as u8, a_cal(f)?, a_ovf(a), opt_i32(f, "y")) }, j_md),
        "iso_year" => run(|| Ok(d()?.iso_year()), ji),
        "iso_month" => run(|| Ok(d()?.iso_month()), ji),
        "iso_day" => run(|| Ok(d()?.iso_day()), ji),
        "calendar" => run(|| Ok(d()?.calendar().identifier().to_string()), js_),
        "month_code" => run(|| Ok(d()?.month_code()), |c| json!(c.as_str())),
        _ => return None,
    })
}

fn cal(m: &str, a: &Value) -> Option<Value> {
    let c = || Calendar::from_str(js::s(a, "recv"));
    let iso = || a_isodate(&a["date"]);
    Some(match m {
        "new" => return super::enums::calendar_new_core(a),
        "from_utf8" => run(|| Calendar::from_utf8(js::s(a, "src").as_bytes()), |c| json!(c.identifier())),
        "is_iso" => run(|| Ok(c()?.is_iso()), jb),
        "identifier" => run(|| Ok(c()?.identifier().to_string()), js_),
        "date_from_partial" => run(|| c()?.date_from_partial(&a_pdate(&a["partial"])?, a_ovf(a)), j_date),
        "month_day_from_partial" => run(|| c()?.month_day_from_partial(&a_pdate(&a["partial"])?, a_ovf(a)), j_md),
        "year_month_from_partial" => run(|| c()?.year_month_from_partial(&a_pdate(&a["partial"])?, a_ovf(a)), j_ym),
        "date_add" => run(|| c()?.date_add(&iso(), &a_dur(&a["dur"])?, a_ovf(a)), j_date),
        "date_until" => run(|| c()?.date_until(&iso(), &a_isodate(&a["other"]), unit_name(js::s(a, "unit"))), j_dur),
        "era" => run(|| Ok(c()?.era(&iso())), j_era),
        "era_year" => run(|| Ok(c()?.era_year(&iso())), jo),
        "year" => run(|| Ok(c()?.year(&iso())), ji),
        "month" => run(|| Ok(c()?.month(&iso())), ji),
        "month_code" => run(|| Ok(c()?.month_code(&iso())), |c| json!(c.as_str())),
        "day" => run(|| Ok(c()?.day(&iso())), ji),
        "day_of_week" => run(|| Ok(c()?.day_of_week(&iso())), ji),
        "day_of_year" => run(|| Ok(c()?.day_of_year(&iso())), ji),
        "week_of_year" => run(|| c()?.week_of_year(&iso()), jo),
        "year_of_week" => run(|| c()?.year_of_week(&iso()), jo),
        "days_in_week" => run(|| c()?.days_in_week(&iso()), ji),
        "days_in_month" => run(|| Ok(c()?.days_in_month(&iso())), ji),
        "days_in_year" => run(|| Ok(c()?.days_in_year(&iso())), ji),
        "months_in_year" => run(|| Ok(c()?.months_in_year(&iso())), ji),
        "in_leap_year" => run(|| Ok(c()?.in_leap_year(&iso())), jb),
        _ => return None,
    })
}
