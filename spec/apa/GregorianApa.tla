---------------------------- MODULE GregorianApa ----------------------------
(* Unbounded-integer lemmas about the closed forms of Gregorian.tla, discharged symbolically by Apalache. *)
EXTENDS Integers

VARIABLES
  \* @type: Int;
  y,
  \* @type: Int;
  m,
  \* @type: Int;
  d

\* @type: (Int) => Bool;
IsLeap(yy) == (yy % 4 = 0 /\ yy % 100 # 0) \/ yy % 400 = 0
\* @type: (Int, Int) => Int;
DIM(yy, mm) == IF mm = 2 THEN (IF IsLeap(yy) THEN 29 ELSE 28)
               ELSE IF mm \in {4, 6, 9, 11} THEN 30 ELSE 31

\* @type: (Int, Int, Int) => Int;
DaysFromCivil(yy, mm, dd) ==
  LET y2  == IF mm <= 2 THEN yy - 1 ELSE yy
      era == y2 \div 400
      yoe == y2 - era * 400
      mp  == (mm + 9) % 12
      doy == (153 * mp + 2) \div 5 + dd - 1
      doe == yoe * 365 + yoe \div 4 - yoe \div 100 + doy
  IN era * 146097 + doe - 719468

\* @type: (Int) => <<Int, Int, Int>>;
CivilFromDays(n) ==
  LET z   == n + 719468
      era == z \div 146097
      doe == z - era * 146097
      yoe == (doe - doe \div 1460 + doe \div 36524 - doe \div 146096) \div 365
      doy == doe - (365 * yoe + yoe \div 4 - yoe \div 100)
      mp  == (5 * doy + 2) \div 153
      dd  == doy - (153 * mp + 2) \div 5 + 1
      mm  == IF mp < 10 THEN mp + 3 ELSE mp - 9
  IN <<yoe + era * 400 + (IF mm <= 2 THEN 1 ELSE 0), mm, dd>>

Init == y \in Int /\ m \in 1..12 /\ d \in 1..31 /\ d <= DIM(y, m)
Next == UNCHANGED <<y, m, d>>

\* 400-year periodicity, for every integer year
Periodic == DaysFromCivil(y + 400, m, d) = DaysFromCivil(y, m, d) + 146097

\* round trip and successor-is-plus-one, for every integer year
RoundTripAndSucc ==
  LET n == DaysFromCivil(y, m, d) IN
  /\ CivilFromDays(n) = <<y, m, d>>
  /\ (d < DIM(y, m) => DaysFromCivil(y, m, d + 1) = n + 1)
  /\ (d = DIM(y, m) /\ m < 12 => DaysFromCivil(y, m + 1, 1) = n + 1)
  /\ (d = 31 /\ m = 12 => DaysFromCivil(y + 1, 1, 1) = n + 1)
=============================================================================
