"""C11 - formatting then parsing returns the same value; output is canonical.
TLC checks on spec/Format.tla (writer) + spec/Grammar.tla (reader) the laws RoundTrip, Readable, Idempotent and the shape laws
on a boundary-rich value set x all display options / precisions; the same runs emit, per transition, the formatter call with
its canonical text and the parser call on that text, which are replayed into the real to_string / to_ixdtf_string* /
as_temporal_string / from_str; seeded sessions print -> parse -> print random full-size values of all eight types and are
validated by Trace_Format."""
import json, os
from . import lib
from .lib import ToolError, log
from .props import corrupt_first
from .p_c12 import clean_prefix, count_distinct, strict_negctl_replay


def run(run):
    b = lib.build_harness("dev")
    q = run.tier == "quick"
    for c in ["tables", "plain", "exact", "dur"]:
        cases, n = run.gen("mc/MC_Format.tla", f"gen/Gen_C11_{c}.cfg", workers=4, name=c, timeout=1500)
        count_distinct(run, cases)
        run.replay(b, cases, label=c)
        if c == "plain":
            def bump(e):
                v = e["out"]["val"]
                v[-1] = "1" if v[-1] != "1" else "2"
            strict_negctl_replay(run, b, cases, lambda e: e["op"] == "Fmt.PlainDate" and e["out"]["kind"] == "ok", bump)
    # toString with a rounding mode in zones with transitions (synthetic provider): the text is the ROUNDED instant as the zone reads it
    cases, n = run.gen("mc/MC_TimeZone.tla", "gen/Gen_C11_text.cfg", workers=4, name="zonetext", timeout=900)
    run.replay(b, cases, label="zonetext")
    tr = run.record(b, "c11", 25000 if q else 200000)
    count_distinct(run, tr)
    ok, mm = run.validate("trace/Trace_Format.tla", "trace/Trace_Format.cfg", tr, timeout=1500)
    small = clean_prefix(run, tr, mm, 400, "c11.clean.trace.ndjson")

    def flip(e):
        v = e["out"]["val"]
        v[-1] = "7" if v[-1] != "7" else "8"
    run.negative_control_trace("trace/Trace_Format.tla", "trace/Trace_Format.cfg", small,
                               corrupt_first(lambda e: e.get("op", "").startswith("Fmt.Plain") and e["out"]["kind"] == "ok", flip))
    run.cov["rule"] = ("replay: every (value, options) transition of the bounded Format instance gives a formatter case and a parser case, distinct by (op, args); "
                       "traces: seeded print/parse/print sessions over the full value ranges, distinct by (op, args); counted after de-duplication")
    run.assumptions += ["Format.tla is my transcription of TemporalDateTimeToString / TemporalDurationToString etc.; its agreement with the reader (Grammar.tla) is model checked",
                        "rounding modes of toString other than the default (trunc) belong to C07, except for zoned values and instants printed in a zone with transitions (zonetext)",
                        "named zones: the offset used for printing is the one the implementation's own getter reports (what that offset should be is C13/C15); "
                        "named-zone instants restricted to 1800..2037"]
