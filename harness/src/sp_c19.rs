//! Special runner for C19.
//!
//! `tvh c19 replay <cases> <report> [from]` - spec -> impl: for every TLC-generated case execute the wrapper and its
//!     core twin (ops_wrap) and judge wrapper = core = spec: the two outcomes must be equal (value AND error kind) and,
//!     unless the spec's expectation is `{"kind":"same"}`, equal to the expectation. One report line per disagreement.
//!     If a call panics while holding the process-wide TZ_PROVIDER lock the lock is poisoned and every later compiled
//!     call would fail; the runner then stops and reports `poisoned_at` so that the pipeline can resume in a fresh process.
//! `tvh c19 names <rows.json>` - which method-table names the three dispatch tables do not know (table cross-check).
use crate::ops;
use crate::ops_wrap;
use serde_json::{json, Value};
use std::io::{BufRead, BufReader, Write};

pub fn same_outcome(a: &Value, b: &Value) -> bool {
    let (ka, kb) = (a["kind"].as_str().unwrap_or("?"), b["kind"].as_str().unwrap_or("?"));
    ka == kb && (ka != "ok" || a["val"] == b["val"]) && !ka.starts_with("unknown")
}

/// None = agrees; Some(reason)
pub fn judge(expected: &Value, obs: &Value) -> Option<&'static str> {
    let (w, c) = (&obs["wrapper"], &obs["core"]);
    let spec = expected["kind"].as_str().unwrap_or("") != "same";
    let wc = same_outcome(w, c);
    match (wc, spec) {
        (true, false) => None,
        (true, true) => if same_outcome(w, expected) { None } else { Some("wrapper=core!=spec") },
        (false, false) => Some("wrapper!=core"),
        (false, true) => Some(if same_outcome(c, expected) { "wrapper!=core=spec" } else if same_outcome(w, expected) { "core!=wrapper=spec" } else { "wrapper!=core!=spec" }),
    }
}

fn poisoned() -> bool { temporal_rs::verif::provider_lock_poisoned() }

fn replay(a: &[String]) {
    let from: usize = a.get(2).map(|s| s.parse().expect("from")).unwrap_or(0);
    let lines: Vec<String> = BufReader::new(std::fs::File::open(&a[0]).expect("cases")).lines().map(|l| l.unwrap()).filter(|l| !l.trim().is_empty()).collect();
    let n = lines.len();
    let mut f = std::fs::OpenOptions::new().create(true).append(from > 0).write(true).truncate(from == 0).open(&a[1]).expect("report");
    let mut mism = 0usize;
    let mut samples = Vec::new();
    let mut poisoned_at: Option<usize> = None;
    let mut done = 0usize;
    for i in from..n {
        let c: Value = serde_json::from_str(&lines[i]).expect("case json");
        let op = c["op"].as_str().expect("op");
        let obs = ops::exec(op, &c["args"]);
        done += 1;
        if i % (n / 4 + 1) == 0 { samples.push(json!({"op": op, "args": c["args"], "expected": c["out"], "observed": obs})); }
        if let Some(why) = judge(&c["out"], &obs) {
            mism += 1;
            writeln!(f, "{}", json!({"i": i + 1, "op": op, "cls": c.get("cls").cloned().unwrap_or(Value::Null), "why": why,
                "args": c["args"], "expected": c["out"], "observed": obs})).unwrap();
        }
        if !op.starts_with("Wrap.capi.") && poisoned() { poisoned_at = Some(i); break; }
    }
    println!("{}", json!({"cases": done, "total": n, "mismatches": mism, "samples": samples, "poisoned_at": poisoned_at}));
}

fn names(a: &[String]) {
    let rows: Value = serde_json::from_str(&std::fs::read_to_string(&a[0]).expect("rows")).expect("rows json");
    let mut unknown = Vec::new();
    for r in rows.as_array().expect("array") {
        if r["gen"] != true { continue; }
        let name = r["name"].as_str().unwrap();
        let ok_w = match name.strip_prefix("capi.") { Some(n) => ops_wrap::known("capi", n), None => ops_wrap::known("compiled", name) };
        if !ok_w { unknown.push(json!({"table": "wrapper", "name": name})); }
        let twin = r["twin"].as_str().unwrap();
        if !ops_wrap::known("twins", twin) { unknown.push(json!({"table": "twins", "name": twin})); }
    }
    println!("{}", json!({"unknown": unknown}));
}

pub fn main(a: &[String]) {
    match a.first().map(|s| s.as_str()) {
        Some("replay") => replay(&a[1..]),
        Some("names") => names(&a[1..]),
        _ => { eprintln!("usage: tvh c19 replay <cases> <report> [from] | names <rows.json>"); std::process::exit(2); }
    }
}
