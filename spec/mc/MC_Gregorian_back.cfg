SPECIFICATION Spec
CONSTANTS
  StartDay <- BStart
  StartDate <- BDate
  Lo <- BLo
  Hi <- BStart
INVARIANTS ClosedFormAgrees WellFormed Cycle DoyRule WeekRules OrderIso RangeEnds 
CHECK_DEADLOCK FALSE
