-------------------------- MODULE MC_DateTimeArith --------------------------
EXTENDS DateTimeArithMachine, TLC, Json
T0 == Time(0, 0, 0, 0, 0, 0)
T1 == Time(0, 0, 0, 0, 0, 1)
TN == Time(12, 0, 0, 0, 0, 0)
TL == Time(23, 59, 59, 999, 999, 999)
TM == Time(11, 59, 59, 999, 999, 999)
QDates == {Date(2019, 12, 31), Date(2020, 1, 1), Date(2020, 1, 30), Date(2020, 1, 31), Date(2020, 2, 1), Date(2020, 2, 28), Date(2020, 2, 29), Date(2020, 3, 1),
           Date(2020, 3, 31), Date(2020, 4, 30), Date(2020, 12, 31), Date(2021, 1, 31), Date(2021, 2, 28), Date(2021, 3, 1), Date(2021, 3, 31), Date(0, 2, 29), Date(-1, 12, 31)}
QTimes == {T0, T1, TN, TL}
QDTs == {DT(d, t) : d \in QDates, t \in QTimes}
LimitDTs == {DT(Date(-271821, 4, 19), T1), DT(Date(-271821, 4, 19), TN), DT(Date(-271821, 4, 20), T0), DT(Date(275760, 9, 13), TL), DT(Date(275760, 9, 13), T0), DT(Date(275760, 9, 12), TL)}
TDates == {CivilFromDays(n) : n \in DFC(Date(2020, 1, 25))..DFC(Date(2020, 4, 3))} \cup {Date(2019, 12, 31), Date(2021, 2, 28), Date(2021, 3, 1)}
TDTs == {DT(d, t) : d \in TDates, t \in QTimes \cup {TM}}
AddDTs == QDTs \cup LimitDTs
AllLargest == UnitSet
One == FromInt(1)
D(y, mo, w, d, h, mi, s, ms, us, ns) == Dur10(FromInt(y), FromInt(mo), FromInt(w), FromInt(d), FromInt(h), FromInt(mi), FromInt(s), FromInt(ms), FromInt(us), FromInt(ns))
MCDurs == {D(0, 1, 0, 0, 0, 0, 0, 0, 0, 0), D(1, 0, 0, 0, 0, 0, 0, 0, 0, 0), D(0, -1, 0, 0, 0, 0, 0, 0, 0, 0), D(0, 0, 0, 1, 0, 0, 0, 0, 0, 0), D(0, 0, 0, 0, 1, 0, 0, 0, 0, 0),
           D(0, 0, 0, 0, 23, 59, 59, 999, 999, 999), D(0, 0, 0, 0, 24, 0, 0, 0, 0, 0), D(0, 0, 0, 0, 0, 0, 0, 0, 0, -1), D(0, 0, 0, 0, 0, 0, 0, 0, 0, 1),
           D(0, 1, 0, 0, 0, 0, 0, 0, 0, 1), D(0, -1, 0, 0, -12, 0, 0, 0, 0, 0), D(0, 0, 1, 1, 36, 0, 0, 0, 0, 0), D(-1, -1, 0, -1, -23, -59, -59, -999, -999, -999),
           D(0, 0, 0, 0, 0, 0, 86400, 0, 0, 0), D(0, 0, 0, 0, -25, 0, 0, 0, 0, 0), D(0, 13, 0, 30, 0, 0, 0, 0, 0, 0)}
NoDurs == {}
NoLargest == {}
NoOpts == {}
MCRoundOpts == {o \in [u : {"day", "hour", "minute", "second", "millisecond", "microsecond", "nanosecond"}, inc : {1, 2, 3, 8, 12, 15, 30, 40, 200, 500}, mode : Modes \cup {"absent"}] :
                  \/ (o.u = "day" /\ o.inc = 1) \/ (o.u = "hour" /\ o.inc \in {1, 2, 3, 12}) \/ (o.u \in {"minute", "second"} /\ o.inc \in {1, 15, 30})
                  \/ (o.u \in {"millisecond", "microsecond", "nanosecond"} /\ o.inc \in {1, 2, 500})
                  \* 8, 40, 200: the increments with an odd number of multiples per enclosing unit (half-even parity counts from the start of the second)
                  \/ (o.u \in {"millisecond", "microsecond", "nanosecond"} /\ o.inc \in {8, 40, 200} /\ o.mode \in {"halfEven", "halfExpand", "halfTrunc"})}
RoundDTs == {DT(d, t) : d \in {Date(2020, 2, 29), Date(2020, 12, 31), Date(275760, 9, 13), Date(-271821, 4, 19)}, t \in {T1, TN, TL, TM, Time(23, 30, 0, 0, 0, 0), Time(23, 59, 59, 999, 999, 500), Time(0, 0, 0, 0, 0, 500)}}
              \cup {DT(Date(2020, 1, 1), T0)}
              \* exact ties of those increments with an odd enclosing microsecond / millisecond field
              \cup {DT(Date(2020, 12, 31), t) : t \in {Time(23, 59, 59, 999, 999, 996), Time(12, 0, 0, 1, 1, 4), Time(12, 0, 0, 1, 4, 0), Time(12, 0, 0, 1, 20, 0), Time(12, 0, 0, 1, 100, 0),
                                                  Time(12, 0, 0, 0, 1, 20), Time(12, 0, 0, 0, 1, 100), Time(12, 0, 0, 4, 0, 0), Time(12, 0, 0, 1, 0, 4)}}

DTJ(x) == [y |-> x.date.y, m |-> x.date.m, d |-> x.date.d, h |-> x.time.h, mi |-> x.time.mi, s |-> x.time.s, ms |-> x.time.ms, us |-> x.time.us, ns |-> x.time.ns]
OutJ(o) == IF o.kind = "ok" THEN Ok(DTJ(o.val)) ELSE o
Ord(a, b) == IF CmpDT(a, b) < 0 THEN "fwd" ELSE IF CmpDT(a, b) > 0 THEN "back" ELSE "same"
TimeOrd(a, b) == LET c == Cmp(TimeNsOf(a.time), TimeNsOf(b.time)) IN IF c < 0 THEN "t<" ELSE IF c > 0 THEN "t>" ELSE "t="
CaseOf ==
  CASE last.op \in {"add", "subtract"} ->
         [op |-> "PlainDateTime." \o last.op, cls |-> last.ovf \o "/" \o last.out.kind, args |-> [recv |-> DTJ(last.a), dur |-> last.dur, ovf |-> last.ovf], out |-> OutJ(last.out)]
    [] last.op \in {"until", "since"} ->
         [op |-> "PlainDateTime." \o last.op, cls |-> last.lg \o "/" \o Ord(last.a, last.b) \o "/" \o TimeOrd(last.a, last.b),
          args |-> [recv |-> DTJ(last.a), other |-> DTJ(last.b), st |-> [largest |-> last.lg]], out |-> last.out]
    [] last.op = "round" ->
         [op |-> "PlainDateTime.round", cls |-> last.o.u \o "/" \o last.o.mode \o "/" \o last.out.kind,
          args |-> [recv |-> DTJ(last.a), st |-> IF last.o.mode = "absent" THEN [smallest |-> last.o.u, inc |-> last.o.inc] ELSE [smallest |-> last.o.u, inc |-> last.o.inc, mode |-> last.o.mode]], out |-> OutJ(last.out)]
Emit == last.op = "none" \/ PrintT("CASE " \o ToJson(CaseOf))
=============================================================================
