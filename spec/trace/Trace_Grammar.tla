--------------------------- MODULE Trace_Grammar ---------------------------
(* impl -> spec for C12: every logged parser call  Parse.<Goal>(chars) -> outcome  must be what the recognizer says:   *)
(* accepted <=> Accepts(goal, chars), with the value the grammar assigns; anything else is a RangeError.                *)
(* Events are independent (a parser has no session state); `cur` remembers the last string only for diagnostics.        *)
EXTENDS Grammar, TraceBase

VARIABLE l
tvars == <<cur, last, l>>
E == Rec[l]
GoalOf(op) == SubSeq(op, 7, Len(op))            \* "Parse.<Goal>"
Goals == Types \cup {"UtcOffset", "TimeZoneId", "TimeZone", "MonthCode", "Calendar"}

TInit == l = 1 /\ cur = [chars |-> <<>>] /\ last = None
Reset == E.op = "reset" /\ cur' = [chars |-> <<>>] /\ last' = None
Known(e) == SubSeq(e.op, 1, 6) = "Parse." /\ GoalOf(e.op) \in Goals
Match == /\ E.op # "reset" /\ Known(E)
         /\ Agrees(Expected(GoalOf(E.op), E.args.chars), E.out)
         /\ cur' = [chars |-> E.args.chars] /\ last' = [op |-> E.op]
Mismatch == /\ E.op # "reset"
            /\ ~(Known(E) /\ Agrees(Expected(GoalOf(E.op), E.args.chars), E.out))
            /\ Report(l, E.op, IF Known(E) THEN ParseCls(GoalOf(E.op), E.args.chars) ELSE "unknown-op",
                      IF Known(E) THEN Expected(GoalOf(E.op), E.args.chars) ELSE "unknown-op", E.out)
            /\ cur' = [chars |-> <<>>] /\ last' = [op |-> "mismatch"]
TNext == l <= NEv /\ l' = l + 1 /\ (Reset \/ Match \/ Mismatch)
TSpec == TInit /\ [][TNext]_tvars

\* evaluated at every step: the recognizer is a function (accepting a string fixes its value kind) on the string just judged
Deterministic == cur.chars = <<>> \/ \A g \in {"PlainDate", "Duration"} : Outcome(g, cur.chars).kind \in {"ok", "range", "any"}
=============================================================================
