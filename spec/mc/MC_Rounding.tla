---------------------------- MODULE MC_Rounding ----------------------------
EXTENDS RoundingMachine, TLC, Json
MCXs == -130..130
MCIncs == (1..13) \cup {25, 60}
\* values that cross limb boundaries, for the BigInt transcription
BXs == {-100000001, -100000000, -99999999, -20001, -20000, -10001, -10000, -9999, -5000, -1, 0, 1, 4999, 5000, 5001, 9999, 10000, 10001, 19999, 20000, 99999999, 100000000, 100000001, 123456789}
BIncs == {1, 2, 3, 7, 9999, 10000, 10001, 20000, 30000, 100000000}
Case == [op |-> "Round.i128", cls |-> RoundCls(FromInt(x), FromInt(inc)) \o "/" \o mode,
         args |-> [x |-> FromInt(x), inc |-> FromInt(inc), mode |-> mode], out |-> Ok(FromInt(res))]
\* f64 instantiation on half-integers: the value x/2 rounded to a multiple of inc  ==  RoundD(x, 2*inc)/2
CaseF == [op |-> "Round.f64", cls |-> RoundCls(FromInt(x), FromInt(2 * inc)) \o "/" \o mode,
          args |-> [x2 |-> x, inc |-> FromInt(inc), mode |-> mode], out |-> Ok(FromInt(RoundD(x, 2 * inc, mode) \div 2))]
Emit == ~Done \/ (PrintT("CASE " \o ToJson(Case)) /\ PrintT("CASE " \o ToJson(CaseF)))
=============================================================================
