//! C15 sessions against the bundled tz provider.
//!
//! `tvh record c15 <seed> <cap> <out> lookup <part> <nparts>`: for every zone of the tier (quick: ~40 chosen
//! zones, thorough: every Zone/Link name of tzdata.zi; zones with index % nparts == part), in provider
//! sessions of a few zones each: a `Tzdb.table` event (the table read with the tzif crate's parser), then
//! `Tzdb.offset` / `Tzdb.local` queries around table transitions (at most `cap` per zone), around rule-based
//! transitions after the table, at year starts, and in unknown zones; earlier queries are asked again later
//! in the session (history). `... ids`: `Tzdb.names`, then `Tzdb.check` for every name in four spellings
//! and for mutated non-names.
//!
//! The driver only chooses inputs (its own arithmetic below is used for nothing else); every answer is
//! judged by spec/trace/Trace_Tzif.tla from the table event.
use super::Tracer;
use crate::gen::*;
use crate::ops_tzdb::iana_names;
use crate::rng::Rng;
use serde_json::{json, Value};

pub const QUICK_ZONES: [&str; 48] = [
    // (the first six: zones sharing a 16-byte identifier prefix with different rules, queried in the same provider sessions)
    "America/Indiana/Indianapolis", "America/Indiana/Knox", "America/Indiana/Tell_City", "America/Argentina/Buenos_Aires", "America/Argentina/San_Luis", "America/Argentina/Ushuaia",
    "Europe/Dublin", "America/New_York", "Australia/Sydney", "Asia/Kolkata", "Africa/Casablanca", "Etc/GMT+5", "UTC",
    "Pacific/Apia", "America/St_Johns", "Asia/Kathmandu", "Europe/London", "Europe/Berlin", "Europe/Lisbon", "Europe/Moscow",
    "Europe/Chisinau", "Asia/Gaza", "Asia/Jerusalem", "Asia/Tehran", "Asia/Tokyo", "Asia/Kabul", "Asia/Pyongyang",
    "Africa/Cairo", "Africa/Monrovia", "Africa/Windhoek", "Africa/El_Aaiun", "Africa/Juba", "America/Santiago", "America/Sao_Paulo",
    "America/Nuuk", "America/Scoresbysund", "America/Havana", "America/Caracas", "America/Phoenix", "America/Anchorage",
    "Antarctica/Troll", "Antarctica/Casey", "Australia/Lord_Howe", "Pacific/Chatham", "Pacific/Kiritimati", "Pacific/Norfolk",
    "Atlantic/Azores", "Etc/GMT-14",
];

// ---------- input helpers ----------
fn pt(sec: i64, ns: i64) -> Value { json!({"d": sec.div_euclid(86_400), "s": sec.rem_euclid(86_400), "ns": ns}) }
fn local_json(sec: i64, ns: i64) -> Value {
    let (y, m, d) = civil(sec.div_euclid(86_400));
    let s = sec.rem_euclid(86_400);
    json!({"y": y, "m": m, "d": d, "h": s / 3600, "mi": s % 3600 / 60, "s": s % 60, "ms": ns / 1_000_000, "us": ns / 1000 % 1000, "ns": ns % 1000})
}
fn is_leap(y: i64) -> bool { (y % 4 == 0 && y % 100 != 0) || y % 400 == 0 }
fn dim(y: i64, m: i64) -> i64 { match m { 2 => if is_leap(y) { 29 } else { 28 }, 4 | 6 | 9 | 11 => 30, _ => 31 } }
/// local second (relative to the epoch, as if local were UTC) at which rule `r` fires in year y
fn rule_local(r: &Value, y: i64) -> i64 {
    let t = r["t"].as_i64().unwrap();
    let day = match r["k"].as_str().unwrap() {
        "J" => { let n = r["n"].as_i64().unwrap(); days_from_civil(y, 1, 1) + n - 1 + if is_leap(y) && n >= 60 { 1 } else { 0 } }
        "N" => days_from_civil(y, 1, 1) + r["n"].as_i64().unwrap(),
        _ => {
            let (m, w, d) = (r["m"].as_i64().unwrap(), r["w"].as_i64().unwrap(), r["d"].as_i64().unwrap());
            let first = days_from_civil(y, m, 1);
            let dow = (first + 4).rem_euclid(7); // 0 = Sunday
            let mut c = first + (d - dow).rem_euclid(7) + 7 * (w - 1);
            if c >= first + dim(y, m) { c -= 7; }
            c
        }
    };
    day * 86_400 + t
}

struct Q { op: &'static str, args: Value }

fn queries_for(zone: &str, tab: &Value, r: &mut Rng, cap: usize, thorough: bool) -> Vec<Q> {
    let mut q: Vec<Q> = Vec::new();
    let off_q = |q: &mut Vec<Q>, sec: i64, ns: i64| q.push(Q { op: "Tzdb.offset", args: json!({"zone": zone, "t": pt(sec, ns)}) });
    let loc_q = |q: &mut Vec<Q>, sec: i64, ns: i64| q.push(Q { op: "Tzdb.local", args: json!({"zone": zone, "local": local_json(sec, ns)}) });
    // around a change from offset a to offset b at UTC second t
    let around = |q: &mut Vec<Q>, r: &mut Rng, t: i64, a: i64, b: i64, subsec: bool| {
        for dt in [-1, 0, 1] { off_q(q, t + dt, 0); }
        if subsec { off_q(q, t - 1, 999_999_999); off_q(q, t, 1); }
        let (lo, hi) = (a.min(b), a.max(b));
        let mut ls = vec![t + lo - 1, t + lo, t + hi - 1, t + hi, t + hi + 1];
        if hi - lo > 2 { ls.push(t + lo + r.range(1, hi - lo - 1)); }
        ls.sort(); ls.dedup();
        for l in ls { loc_q(q, l, 0); }
        if subsec { loc_q(q, t + lo - 1, 999_999_999); loc_q(q, t + hi, 500_000_000); }
    };
    let types = tab["types"].as_array().unwrap();
    let trans = tab["trans"].as_array().unwrap();
    let tsec = |i: usize| trans[i]["d"].as_i64().unwrap() * 86_400 + trans[i]["s"].as_i64().unwrap();
    let toff = |ty: i64| types[(ty - 1) as usize]["off"].as_i64().unwrap();
    // which table transitions
    let n = trans.len();
    let mut pick: Vec<usize> = (0..n).collect();
    if n > cap {
        let edge = (cap / 4).max(2);
        let mut s: Vec<usize> = (0..edge).chain(n - edge..n).collect();
        while s.len() < cap { let i = r.range(0, n as i64 - 1) as usize; if !s.contains(&i) { s.push(i); } }
        s.sort(); pick = s;
    }
    for (k, &i) in pick.iter().enumerate() {
        let prev = if i == 0 { 1 } else { trans[i - 1]["ty"].as_i64().unwrap() };
        around(&mut q, r, tsec(i), toff(prev), toff(trans[i]["ty"].as_i64().unwrap()), thorough || k % 3 == 0);
    }
    // far before the first / after the last transition, year starts
    let years: &[i64] = &[1, 1000, 1800, 1850, 1900, 1950, 1970, 2000, 2037, 2038, 2039, 2100, 2400, 9999];
    for &y in years {
        let s = days_from_civil(y, 1, 1) * 86_400;
        off_q(&mut q, s, 0);
        loc_q(&mut q, s + 43_200, 0);
        loc_q(&mut q, days_from_civil(y, 7, 1) * 86_400 + 43_200, 0);
    }
    off_q(&mut q, days_from_civil(9999, 12, 31) * 86_400 + 86_399, 999_999_999);
    off_q(&mut q, 2_147_483_647, 0); off_q(&mut q, 2_147_483_648, 0); off_q(&mut q, -2_147_483_648, 0); off_q(&mut q, -2_147_483_649, 0);
    off_q(&mut q, 0, 0); off_q(&mut q, -1, 999_999_999);
    if n > 0 { off_q(&mut q, tsec(0) - 31_536_000, 0); off_q(&mut q, tsec(n - 1) + 1, 0); off_q(&mut q, tsec(n - 1) + 315_360_000, 0); }
    // a wall-clock reading whose instant is outside the representable range, between two identical answerable questions:
    // the failing call must not change the second answer (one of the two range ends fails, depending on the sign of the offset)
    for far in [days_from_civil(275760, 9, 13) * 86_400 + 43_200, days_from_civil(-271821, 4, 20) * 86_400 + 1] {
        let t0 = days_from_civil(2001, 9, 9) * 86_400 + 6400 + r.range(0, 86_399);
        loc_q(&mut q, t0, 0); loc_q(&mut q, far, 0); loc_q(&mut q, t0, 0);
    }
    // rule-based transitions after the table
    let f = &tab["footer"];
    if f["kind"] == "rule" {
        let (std, dst) = (f["std"].as_i64().unwrap(), f["dst"].as_i64().unwrap());
        let last_year = if n > 0 { civil(tsec(n - 1).div_euclid(86_400)).0 } else { 1969 };
        let mut ys: Vec<i64> = if thorough { (2038..=2100).collect() } else { vec![2038, 2039, 2040, 2050, 2099, 2100, r.range(2041, 2098), r.range(2101, 2399)] };
        ys.extend([2400, 9999, last_year + 1]);
        if n == 0 { ys.extend([1, 1900, 1970, 2000]); }
        ys.sort(); ys.dedup();
        for (k, y) in ys.into_iter().enumerate() {
            if y <= last_year { continue; }
            around(&mut q, r, rule_local(&f["start"], y) - std, std, dst, thorough || k % 4 == 0);
            around(&mut q, r, rule_local(&f["end"], y) - dst, dst, std, thorough || k % 4 == 1);
            // mid-summer and mid-winter
            off_q(&mut q, days_from_civil(y, 1, 15) * 86_400 + 43_200, 0);
            off_q(&mut q, days_from_civil(y, 7, 15) * 86_400 + 43_200, 0);
        }
    }
    q
}

fn lookup(t: &mut Tracer, r: &mut Rng, cap: usize, part: usize, nparts: usize) {
    let thorough = std::env::var("VERIF_TIER").map(|v| v == "thorough").unwrap_or(false);
    let all: Vec<String> = if thorough { iana_names() } else { QUICK_ZONES.iter().map(|s| s.to_string()).collect() };
    let zones: Vec<&String> = all.iter().enumerate().filter(|(i, _)| i % nparts == part).map(|(_, z)| z).collect();
    for (gi, group) in zones.chunks(3).enumerate() {
        t.call("Tzdb.fresh", json!({}));
        let mut asked: Vec<(String, Value)> = Vec::new();
        // a failing query first in every other session: it must leave nothing behind
        if gi % 2 == 0 {
            t.call("Tzdb.table", json!({"zone": "Nowhere/Land"}));
            t.call("Tzdb.offset", json!({"zone": "Nowhere/Land", "t": pt(1_000_000_000, 0)}));
        }
        for z in group {
            let tab = t.call("Tzdb.table", json!({"zone": z}));
            if tab["kind"] != "ok" { continue; }
            let qs = queries_for(z, &tab["val"], r, cap, thorough);
            for (i, q) in qs.into_iter().enumerate() {
                t.call(q.op, q.args.clone());
                if i % 37 == 5 { asked.push((q.op.to_string(), q.args)); }
            }
            if gi % 2 == 1 {
                t.call("Tzdb.table", json!({"zone": "Atlantis/Capital"}));
                t.call("Tzdb.local", json!({"zone": "Atlantis/Capital", "local": local_json(1_000_000_000, 0)}));
            }
        }
        // the same questions again, now that other zones (and failures) are in the provider's history
        for _ in 0..asked.len().min(40) {
            let (op, args) = r.pick(&asked).clone();
            t.call(&op, args);
        }
        t.reset();
    }
}

fn chars(s: &str) -> Value { Value::Array(s.chars().map(|c| json!(c.to_string())).collect()) }

fn ids(t: &mut Tracer, r: &mut Rng) {
    t.call("Tzdb.fresh", json!({}));
    t.call("Tzdb.names", json!({}));
    let names = iana_names();
    for n in &names {
        let mixed: String = n.chars().map(|c| if r.chance(1, 2) { c.to_ascii_uppercase() } else { c.to_ascii_lowercase() }).collect();
        for s in [n.clone(), n.to_ascii_uppercase(), n.to_ascii_lowercase(), mixed] { t.call("Tzdb.check", json!({"chars": chars(&s)})); }
        // mutations (some of them are names again, e.g. Etc/GMT+1 -> Etc/GMT+10: the spec decides)
        let cs: Vec<char> = n.chars().collect();
        let i = r.range(0, cs.len() as i64 - 1) as usize;
        let mut del = cs.clone(); del.remove(i);
        let mut ins = cs.clone(); ins.insert(i, *r.pick(&['a', 'Z', '_', '/', '0', ' ', '-']));
        let mut rep = cs.clone(); rep[i] = if cs[i] == 'x' { 'y' } else { 'x' };
        let muts: Vec<String> = vec![del.iter().collect(), ins.iter().collect(), rep.iter().collect(), format!("{} ", n), format!("/{}", n),
                                     n.replace('/', "_"), n.replace('_', " "), format!("{}0", n), n[..n.len() - 1].to_string()];
        for _ in 0..3 { let m = r.pick(&muts).clone(); t.call("Tzdb.check", json!({"chars": chars(&m)})); }
    }
    for s in ["", " ", "/", "UTC ", "Z", "+00:00", "utc", "gmt", "Etc/Unknown", "posix/UTC", "right/UTC", "posixrules", "localtime", "tzdata.zi", "Europe", "America/Argentina", "../UTC"] {
        t.call("Tzdb.check", json!({"chars": chars(s)}));
    }
}

pub fn drive(t: &mut Tracer, r: &mut Rng, n: usize) {
    // extra arguments after `record c15 <seed> <n> <out>`: mode [part nparts]
    let a: Vec<String> = std::env::args().collect();
    let mode = a.get(6).map(|s| s.as_str()).unwrap_or("lookup");
    let part: usize = a.get(7).and_then(|s| s.parse().ok()).unwrap_or(0);
    let nparts: usize = a.get(8).and_then(|s| s.parse().ok()).unwrap_or(1);
    match mode {
        "ids" => ids(t, r),
        _ => lookup(t, r, n.max(4), part, nparts),
    }
}
