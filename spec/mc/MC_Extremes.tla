----------------------------- MODULE MC_Extremes -----------------------------
EXTENDS ExtremesMachine, TLC, Json
FDate == {"date"}
FDateTime == {"datetime"}
FTime == {"time"}
FInstant == {"instant"}
FDuration == {"duration"}
FZoned == {"zoned"}
Family == CHOOSE f \in Families : TRUE
Emit == last.op = "none" \/ PrintT("CASE " \o ToJson([op |-> last.op, cls |-> last.op, args |-> last.args, out |-> last.out]))
=============================================================================
