---------------------------- MODULE Trace_NoPanic ----------------------------
(* impl -> spec for C03: every logged outcome must be in the alphabet of explainable outcomes. *)
EXTENDS TemporalBase, TraceBase
VARIABLES l
tvars == <<l>>
E == Rec[l]
Alphabet(e) == IF e.op = "RealZone.probe" \/ e.op = "Parse.ZonedDateTime" THEN OkKinds \cup {"generic"} ELSE OkKinds
Good(e) == e.out.kind \in Alphabet(e)
ClsOf(e) == IF e.op = "RealZone.probe" THEN e.args.call \o "/" \o e.args.lbl ELSE "string"
TInit == l = 1
TNext == /\ l <= NEv /\ l' = l + 1
         /\ \/ E.op = "reset"
            \/ E.op # "reset" /\ Good(E)
            \/ E.op # "reset" /\ ~Good(E) /\ Report(l, E.op, ClsOf(E), "an outcome in {ok, type, range, syntax}", E.out)
TSpec == TInit /\ [][TNext]_tvars
=============================================================================
