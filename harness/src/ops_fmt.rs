//! Operations for C11: `Fmt.<Type>` = the type's public formatter applied to a value built from its abstract
//! projection (+ display options); the result travels as characters (see ops_parse::chars_tok).
//! `Enum.display` / `Enum.parse` = Display / FromStr of the option enums, addressed by the variant's Rust name.
use crate::js::{self, big, int};
use crate::ops::{utc, FS};
use crate::ops_parse::{chars_tok, p_monthcode, p_timezone, untok};
use crate::proj::*;
use serde_json::{json, Value};
use std::str::FromStr;
use temporal_rs::options::*;
use temporal_rs::parsers::Precision;
use temporal_rs::*;

fn arg_cal(v: &Value) -> TemporalResult<Calendar> {
    match v.get("cal").and_then(|c| c.as_str()) { Some(c) => Calendar::from_utf8(c.as_bytes()), None => Ok(iso()) }
}
/// {"prec": -1 (auto) | 0..9 digits, "su"?: unit name ("" = none)} -> ToStringRoundingOptions (rounding mode left at its default, trunc)
fn arg_tsopts(a: &Value) -> ToStringRoundingOptions {
    let precision = match a.get("prec").and_then(|x| x.as_i64()) {
        None | Some(-1) => Precision::Auto,
        Some(-2) => Precision::Minute,
        Some(n) => Precision::Digit(n as u8),
    };
    let smallest_unit = js::opt_s(a, "su").filter(|s| !s.is_empty()).map(arg_unit);
    let rounding_mode = js::opt_s(a, "mode").filter(|s| !s.is_empty()).map(arg_mode);
    ToStringRoundingOptions { precision, smallest_unit, rounding_mode }
}
fn arg_dc(a: &Value) -> DisplayCalendar { DisplayCalendar::from_str(js::opt_s(a, "cd").unwrap_or("auto")).expect("calendar display") }
fn arg_do(a: &Value) -> DisplayOffset { DisplayOffset::from_str(js::opt_s(a, "od").unwrap_or("auto")).expect("offset display") }
fn arg_dtz(a: &Value) -> DisplayTimeZone { DisplayTimeZone::from_str(js::opt_s(a, "zd").unwrap_or("auto")).expect("tz display") }
fn display(a: &Value) -> bool { js::opt_s(a, "via") == Some("display") }

fn a_date(v: &Value) -> TemporalResult<PlainDate> {
    PlainDate::try_new(js::i(v, "y") as i32, js::i(v, "m") as u8, js::i(v, "d") as u8, arg_cal(v)?)
}
fn a_datetime(v: &Value) -> TemporalResult<PlainDateTime> {
    PlainDateTime::try_new(js::i(v, "y") as i32, js::i(v, "m") as u8, js::i(v, "d") as u8,
        js::i(v, "h") as u8, js::i(v, "mi") as u8, js::i(v, "s") as u8,
        js::i(v, "ms") as u16, js::i(v, "us") as u16, js::i(v, "ns") as u16, arg_cal(v)?)
}
fn a_ym(v: &Value) -> TemporalResult<PlainYearMonth> {
    PlainYearMonth::new_with_overflow(js::i(v, "y") as i32, js::i(v, "m") as u8, v.get("rd").and_then(|x| x.as_u64()).map(|x| x as u8), arg_cal(v)?, ArithmeticOverflow::Reject)
}
fn a_md(v: &Value) -> TemporalResult<PlainMonthDay> {
    PlainMonthDay::new_with_overflow(js::i(v, "m") as u8, js::i(v, "d") as u8, arg_cal(v)?, ArithmeticOverflow::Reject, v.get("ry").and_then(|x| x.as_i64()).map(|x| x as i32))
}
fn a_tz(v: &Value) -> TemporalResult<TimeZone> { TimeZone::try_from_identifier_str(&untok(v)) }
fn a_zdt(v: &Value) -> TemporalResult<ZonedDateTime> { ZonedDateTime::try_new(num(&v["ns"]), arg_cal(v)?, a_tz(&v["tz"])?) }

macro_rules! enum_table {
    ($name:literal, $ty:ty, [$($var:ident),*], $op:expr, $a:expr) => {{
        let vars: Vec<(&str, $ty)> = vec![$((stringify!($var), <$ty>::$var)),*];
        match $op {
            "Enum.display" => {
                let want = js::s($a, "variant");
                let (_, v) = vars.iter().find(|(n, _)| *n == want).unwrap_or_else(|| panic!("variant {} of {}", want, $name));
                run_inf(|| v.to_string(), |s| chars_tok(s))
            }
            "Enum.parse" => {
                let s = untok(&$a["chars"]);
                match std::panic::catch_unwind(|| <$ty>::from_str(&s)) {
                    Err(_) => err("panic"),
                    // the enums' FromStr error types carry no kind; callers turn them into RangeError
                    Ok(Err(_)) => err("range"),
                    Ok(Ok(v)) => ok(json!(format!("{:?}", v))),
                }
            }
            "Enum.variants" => ok(json!(vars.iter().map(|(n, _)| *n).collect::<Vec<_>>())),
            _ => unreachable!(),
        }
    }};
}

fn enum_op(op: &str, a: &Value) -> Value {
    match js::s(a, "enum") {
        "Unit" => enum_table!("Unit", Unit, [Auto, Nanosecond, Microsecond, Millisecond, Second, Minute, Hour, Day, Week, Month, Year], op, a),
        "RoundingMode" => enum_table!("RoundingMode", RoundingMode, [Ceil, Floor, Expand, Trunc, HalfCeil, HalfFloor, HalfExpand, HalfTrunc, HalfEven], op, a),
        "ArithmeticOverflow" => enum_table!("ArithmeticOverflow", ArithmeticOverflow, [Constrain, Reject], op, a),
        "DurationOverflow" => enum_table!("DurationOverflow", DurationOverflow, [Constrain, Balance], op, a),
        "Disambiguation" => enum_table!("Disambiguation", Disambiguation, [Compatible, Earlier, Later, Reject], op, a),
        "OffsetDisambiguation" => enum_table!("OffsetDisambiguation", OffsetDisambiguation, [Use, Prefer, Ignore, Reject], op, a),
        "DisplayCalendar" => enum_table!("DisplayCalendar", DisplayCalendar, [Auto, Always, Never, Critical], op, a),
        "DisplayOffset" => enum_table!("DisplayOffset", DisplayOffset, [Auto, Never], op, a),
        "DisplayTimeZone" => enum_table!("DisplayTimeZone", DisplayTimeZone, [Auto, Never, Critical], op, a),
        e => json!({"kind": "unknown-enum", "enum": e}),
    }
}

pub fn exec(op: &str, a: &Value) -> Option<Value> {
    let v = &a["v"];
    Some(match op {
        "Fmt.PlainDate" => run(|| { let d = a_date(v)?; Ok(if display(a) { d.to_string() } else { d.to_ixdtf_string(arg_dc(a)) }) }, |s| chars_tok(s)),
        "Fmt.PlainDateTime" => run(|| { let d = a_datetime(v)?; if display(a) { Ok(d.to_string()) } else { d.to_ixdtf_string(arg_tsopts(a), arg_dc(a)) } }, |s| chars_tok(s)),
        "Fmt.PlainTime" => run(|| arg_time(v)?.to_ixdtf_string(arg_tsopts(a)), |s| chars_tok(s)),
        "Fmt.PlainYearMonth" => run(|| { let d = a_ym(v)?; Ok(if display(a) { d.to_string() } else { d.to_ixdtf_string(arg_dc(a)) }) }, |s| chars_tok(s)),
        "Fmt.PlainMonthDay" => run(|| { let d = a_md(v)?; Ok(if display(a) { d.to_string() } else { d.to_ixdtf_string(arg_dc(a)) }) }, |s| chars_tok(s)),
        "Fmt.Instant" => run(|| {
            let i = arg_instant(v)?;
            let tz = match a.get("tz") { Some(t) if !t.is_null() => Some(a_tz(t)?), _ => None };
            FS.with(|p| i.to_ixdtf_string_with_provider(tz.as_ref(), arg_tsopts(a), p))
        }, |s| chars_tok(s)),
        "Fmt.Duration" => run(|| { let d = arg_duration(v)?; if display(a) { Ok(d.to_string()) } else { d.as_temporal_string(arg_tsopts(a)) } }, |s| chars_tok(s)),
        "Fmt.ZonedDateTime" => run(|| {
            let z = a_zdt(v)?;
            FS.with(|p| if display(a) { z.to_string_with_provider(p) } else { z.to_ixdtf_string_with_provider(arg_do(a), arg_dtz(a), arg_dc(a), arg_tsopts(a), p) })
        }, |s| chars_tok(s)),
        // the offset a (named or fixed) zone has at an instant, as the public getter reports it (input to the spec for named zones)
        "ZonedDateTime.offsetNs" => run(|| FS.with(|p| a_zdt(v)?.offset_nanoseconds_with_provider(p)), |n| big(*n as i128)),
        "Fmt.YearPad" => run(|| PlainYearMonth::new_with_overflow(js::i(a, "y") as i32, js::i(a, "m") as u8, None, iso(), ArithmeticOverflow::Reject), |ym| chars_tok(&ym.padded_iso_year_string())),
        "Fmt.TimeZone" => run(|| a_tz(&a["tz"])?.identifier(), |s| chars_tok(s)),
        "Fmt.MonthCode" => run(|| MonthCode::from_str(&untok(&a["chars"])), |m| chars_tok(m.as_str())),
        "Fmt.Calendar" => run(|| Calendar::from_utf8(untok(&a["chars"]).as_bytes()), |c| chars_tok(c.identifier())),
        "Enum.display" | "Enum.parse" | "Enum.variants" => enum_op(op, a),
        _ => return None,
    })
}
