----------------------------- MODULE MC_Partial -----------------------------
(* Bounded instances of PartialMachine (C17) and the CASE emission for spec -> impl replay. *)
EXTENDS PartialMachine, Json

NA == -999999            \* "field not supplied" while enumerating; never a field value
I32Max == 2147483647
I32Min == -2147483647 - 1

MkDateP(y, m, mc, d) ==
  [k \in (IF y = NA THEN {} ELSE {"year"}) \cup (IF m = NA THEN {} ELSE {"month"})
         \cup (IF mc = "-" THEN {} ELSE {"monthCode"}) \cup (IF d = NA THEN {} ELSE {"day"})
     |-> CASE k = "year" -> y [] k = "month" -> m [] k = "monthCode" -> mc [] k = "day" -> d]
MkTimeP(h, mi, s, ms, us, ns) ==
  [k \in (IF h = NA THEN {} ELSE {"hour"}) \cup (IF mi = NA THEN {} ELSE {"minute"}) \cup (IF s = NA THEN {} ELSE {"second"})
         \cup (IF ms = NA THEN {} ELSE {"millisecond"}) \cup (IF us = NA THEN {} ELSE {"microsecond"}) \cup (IF ns = NA THEN {} ELSE {"nanosecond"})
     |-> CASE k = "hour" -> h [] k = "minute" -> mi [] k = "second" -> s
           [] k = "millisecond" -> ms [] k = "microsecond" -> us [] k = "nanosecond" -> ns]

(* ---- PlainDate: all subsets of {year, month, monthCode, day} x {valid, 0, max+1, 255, limits, i32 extremes} x code agree/conflict/foreign ---- *)
DYears == {NA, 2023, 2024, -271821, 275760, 275761, I32Max, I32Min}
DMonths == {NA, 2, 4, 12, 0, 13, 14, 255}
DCodes == {"-", "M02", "M04", "M12", "M13", "M05L", "M00"}
DDays == {NA, 1, 19, 29, 30, 31, 0, 32, 255}
DatePartials == {MkDateP(y, m, mc, d) : y \in DYears, m \in DMonths, mc \in DCodes, d \in DDays}
DateReceivers == {[ty |-> "date", v |-> Date(2021, 1, 31)], [ty |-> "date", v |-> Date(2024, 2, 29)], [ty |-> "date", v |-> Date(1999, 12, 31)],
                  [ty |-> "date", v |-> Date(-271821, 4, 19)], [ty |-> "date", v |-> Date(275760, 9, 13)], [ty |-> "date", v |-> Date(2020, 6, 15)]}
DateNew == {[ty |-> "date", v |-> Date(y, m, d)] : y \in DYears \ {NA}, m \in DMonths \ {NA}, d \in DDays \ {NA}}

(* ---- PlainYearMonth: all subsets of {year, month, monthCode} ---- *)
YmPartials == {MkDateP(y, m, mc, NA) : y \in DYears \cup {-271822, 0}, m \in DMonths \cup {3, 9, 10}, mc \in DCodes \cup {"M03", "M09", "M10"}}
YmReceivers == {[ty |-> "yearmonth", v |-> YM(2021, 1, 1)], [ty |-> "yearmonth", v |-> YM(2024, 2, 1)], [ty |-> "yearmonth", v |-> YM(-271821, 4, 1)],
                [ty |-> "yearmonth", v |-> YM(275760, 9, 1)], [ty |-> "yearmonth", v |-> YM(1999, 12, 1)]}

(* ---- PlainTime: all subsets of the six fields x {valid, max+1, type maximum} ---- *)
TimePartials == {MkTimeP(h, mi, s, ms, us, ns) : h \in {NA, 7, 24, 255}, mi \in {NA, 30, 60, 255}, s \in {NA, 0, 60, 255},
                                                 ms \in {NA, 999, 1000, 65535}, us \in {NA, 1, 1000, 65535}, ns \in {NA, 500, 1000, 65535}}
TimeReceivers == {[ty |-> "time", v |-> TimeRec(23, 59, 59, 999, 999, 999)], [ty |-> "time", v |-> TimeRec(0, 0, 0, 0, 0, 0)],
                  [ty |-> "time", v |-> TimeRec(12, 34, 56, 789, 12, 345)]}
TimeNew == {[ty |-> "time", v |-> TimeRec(h, mi, s, ms, us, ns)] : h \in {7, 23, 24, 255}, mi \in {30, 60, 255}, s \in {59, 60, 255},
                                                                 ms \in {999, 1000, 65535}, us \in {0, 1000, 65535}, ns \in {500, 1000, 65535}}

(* ---- PlainDateTime / ZonedDateTime partials: all subsets of the ten fields, fewer values per field ---- *)
DtDateP == {MkDateP(y, m, mc, d) : y \in {NA, 2023, 275761, I32Max}, m \in {NA, 2, 13}, mc \in {"-", "M02", "M03"}, d \in {NA, 31, 0}}
DtTimeP == {MkTimeP(h, mi, s, ms, us, ns) : h \in {NA, 5, 24}, mi \in {NA, 60}, s \in {NA, 61}, ms \in {NA, 1000}, us \in {NA, 7}, ns \in {NA, 65535}}
DateTimePartials == {dp @@ tp : dp \in DtDateP, tp \in DtTimeP}
DtLimitP == {MkDateP(y, m, "-", d) @@ MkTimeP(h, NA, NA, NA, NA, ns) :
               y \in {-271821, 275760}, m \in {4, 9}, d \in {13, 14, 18, 19, 20}, h \in {NA, 0, 23}, ns \in {NA, 0, 1}}
DateTimeReceivers == {[ty |-> "datetime", v |-> DT(Date(1999, 12, 31), TimeRec(23, 59, 59, 999, 999, 999))],
                      [ty |-> "datetime", v |-> DT(Date(2024, 2, 29), TimeRec(0, 0, 0, 0, 0, 0))],
                      [ty |-> "datetime", v |-> DT(Date(2021, 1, 31), TimeRec(12, 34, 56, 789, 12, 345))]}
DateTimeLimitReceivers == {[ty |-> "datetime", v |-> DT(Date(-271821, 4, 19), TimeRec(0, 0, 0, 0, 0, 1))],
                           [ty |-> "datetime", v |-> DT(Date(275760, 9, 13), TimeRec(23, 59, 59, 999, 999, 999))]}
DateTimeNew == {[ty |-> "datetime", v |-> DT(Date(y, m, d), TimeRec(h, mi, s, ms, 5, ns))] :
                  y \in {2020, -271821, 275760, I32Max}, m \in {2, 4, 9, 13, 0}, d \in {19, 13, 30, 0}, h \in {0, 23, 24}, mi \in {59, 60}, s \in {0, 255},
                  ms \in {0, 1000}, ns \in {0, 1, 65535}}

(* ---- thorough tier: more values per field, more receivers ---- *)
TYears == DYears \cup {0, -1, 1972, 5879611, -5879611, -271822}
TMonths == {NA, 1, 2, 4, 6, 9, 11, 12, 0, 13, 14, 99, 255}
TCodes == DCodes \cup {"M01", "M06", "M11", "M99", "M12L"}
TDays == {NA, 1, 13, 19, 28, 29, 30, 31, 0, 32, 255}
TDatePartials == {MkDateP(y, m, mc, d) : y \in TYears, m \in TMonths, mc \in TCodes, d \in TDays}
TDateReceivers == DateReceivers \cup {[ty |-> "date", v |-> Date(2023, 3, 31)], [ty |-> "date", v |-> Date(1900, 2, 28)], [ty |-> "date", v |-> Date(2000, 2, 29)],
                                      [ty |-> "date", v |-> Date(0, 1, 1)], [ty |-> "date", v |-> Date(-1, 12, 31)]}
TDateNew == {[ty |-> "date", v |-> Date(y, m, d)] : y \in TYears \ {NA}, m \in TMonths \ {NA}, d \in TDays \ {NA}}
TYmPartials == {MkDateP(y, m, mc, NA) : y \in TYears, m \in TMonths \cup {3, 5, 10}, mc \in TCodes \cup {"M03", "M09", "M10"}}
TYmReceivers == YmReceivers \cup {[ty |-> "yearmonth", v |-> YM(-271821, 5, 1)], [ty |-> "yearmonth", v |-> YM(275760, 8, 1)], [ty |-> "yearmonth", v |-> YM(0, 1, 1)]}
TTimePartials == {MkTimeP(h, mi, s, ms, us, ns) : h \in {NA, 0, 23, 24, 255}, mi \in {NA, 0, 59, 60, 255}, s \in {NA, 0, 59, 60, 255},
                                                  ms \in {NA, 0, 999, 1000, 65535}, us \in {NA, 0, 999, 1000, 65535}, ns \in {NA, 0, 999, 1000, 65535}}
TDateP(ty) == IF ty = "date" THEN TDatePartials ELSE {}
TYmP(ty) == IF ty = "yearmonth" THEN TYmPartials ELSE {}
TTimeP(ty) == IF ty = "time" THEN TTimePartials ELSE {}

NoP(ty) == {}
DateP(ty) == IF ty = "date" THEN DatePartials ELSE {}
YmP(ty) == IF ty = "yearmonth" THEN YmPartials ELSE {}
TimeP(ty) == IF ty = "time" THEN TimePartials ELSE {}
DateTimeP(ty) == IF ty = "datetime" THEN DateTimePartials ELSE {}
DateTimeLimP(ty) == IF ty = "datetime" THEN DtLimitP ELSE {}
ZonedP(ty) == IF ty = "zoned" THEN DateTimePartials \cup DtLimitP ELSE {}
NoSet == {}
FromDate == {"date"}
FromYm == {"yearmonth"}
FromTime == {"time"}
FromDateTime == {"datetime"}
FromZoned == {"zoned"}
AllReceivers == DateReceivers \cup YmReceivers \cup TimeReceivers \cup DateTimeReceivers \cup DateTimeLimitReceivers

(* ---- emission ---- *)
TypeName(ty) == CASE ty = "date" -> "PlainDate" [] ty = "time" -> "PlainTime" [] ty = "datetime" -> "PlainDateTime"
                  [] ty = "yearmonth" -> "PlainYearMonth" [] ty = "zoned" -> "ZonedDateTime"
Base == IF last.op = "with" THEN last.recv ELSE IF last.ty = "yearmonth" THEN YM(0, 0, 1) ELSE DT(Date(0, 0, 0), MidnightRec)
CaseCls == Cls(last.ty, last.op, Base, last.p, last.ovf)
CaseOf ==
  IF last.op = "with" /\ "half" \in DOMAIN last THEN
    [op |-> "PlainDate.with", cls |-> "half-era/" \o last.half \o (IF "year" \in DOMAIN last.p THEN "+year" ELSE "") \o "/" \o last.ovf,
     args |-> [recv |-> last.recv @@ [cal |-> "gregory"], p |-> last.p, half |-> last.half, ovf |-> last.ovf], out |-> last.out]
  ELSE IF last.op = "with" /\ "era" \in DOMAIN last THEN
    [op |-> "PlainDate.with", cls |-> CaseCls \o "/era-" \o last.era[1],
     args |-> [recv |-> last.recv @@ [cal |-> "gregory"], p |-> [k \in (DOMAIN last.p \ {"year"}) |-> last.p[k]], era |-> last.era[1], eraYear |-> last.era[2], ovf |-> last.ovf], out |-> last.out]
  ELSE IF last.op = "with" THEN
    [op |-> TypeName(last.ty) \o ".with", cls |-> CaseCls, args |-> [recv |-> last.recv, p |-> last.p, ovf |-> last.ovf], out |-> last.out]
  ELSE IF last.op = "from_partial" THEN
    [op |-> TypeName(last.ty) \o ".from_partial", cls |-> CaseCls,
     args |-> IF last.ty = "zoned" THEN [p |-> last.p, ovf |-> last.ovf, tz |-> "+00:00"] ELSE [p |-> last.p, ovf |-> last.ovf], out |-> last.out]
  ELSE
    [op |-> TypeName(last.ty) \o ".new_with_overflow", cls |-> CaseCls,
     args |-> (CASE last.ty = "date" -> [y |-> last.p.year, m |-> last.p.month, d |-> last.p.day]
                 [] last.ty = "time" -> MergeTime(MidnightRec, last.p)
                 [] last.ty = "datetime" -> DT(Date(last.p.year, last.p.month, last.p.day), MergeTime(MidnightRec, last.p))) @@ [ovf |-> last.ovf],
     out |-> last.out]
Emit == last.op = "none" \/ PrintT("CASE " \o ToJson(CaseOf))
=============================================================================
