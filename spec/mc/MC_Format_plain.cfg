SPECIFICATION FSpec
CONSTANTS
  FValues <- PlainValues
  FOpts <- MCOpts
  GenForms = {}
  GenYears = {}
  Budget = 0
INVARIANTS RoundTrip Readable Idempotent YearShape FractionShape AnnotationOrder EnumRoundTrip
CHECK_DEADLOCK FALSE
