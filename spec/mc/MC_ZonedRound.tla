---------------------------- MODULE MC_ZonedRound ----------------------------
EXTENDS ZonedRoundMachine, TLC, Json
H == 3600
MCZones == {[init |-> -5 * H, trans |-> <<[at |-> 7 * H, off |-> -4 * H], [at |-> 20 * 86400 + 6 * H, off |-> -5 * H]>>],      \* +1 h DST pair
            [init |-> 10 * H, trans |-> <<[at |-> 16 * H, off |-> 10 * H + 1800]>>],                                        \* 30 min forward
            [init |-> -10 * H, trans |-> <<[at |-> 10 * H, off |-> 14 * H]>>],                                              \* 24 h skip
            [init |-> 14 * H, trans |-> <<[at |-> 10 * H, off |-> -10 * H]>>],                                              \* 24 h repeat
            [init |-> 5 * H + 1800, trans |-> <<>>]}
Grid(lo, hi, step) == {lo + k * step : k \in 0..((hi - lo) \div step)}
MCInstants == Grid(-86400 - 6 * H, 86400 + 18 * H, 6 * H) \cup Grid(20 * 86400 - 12 * H, 20 * 86400 + 12 * H, 6 * H) \cup {7 * H - 1800, 7 * H, 19 * 86400 + 5 * H + 1800, -30 * 86400 + 3 * H}
Dz(y, mo, w, d, h, mi, s) == Dur10(FromInt(y), FromInt(mo), FromInt(w), FromInt(d), FromInt(h), FromInt(mi), FromInt(s), Zero, Zero, Zero)
MCDurs == {Dz(0, 0, 0, -6, -20, 0, 0), Dz(0, 0, 0, 6, 20, 0, 0),
           Dz(0, 0, 0, 0, 22, 59, 0), Dz(0, 0, 0, 0, 22, 10, 0),     \* just short of the end of a 23 h day: rounded up by 2 h they pass it
           Dz(0, 0, 0, 1, 0, 0, 0), Dz(0, 0, 0, 0, 24, 0, 0), Dz(0, 0, 0, 0, 25, 0, 0), Dz(0, 0, 0, 1, 12, 0, 0), Dz(0, 0, 0, 0, 11, 30, 0), Dz(0, 0, 0, 0, 12, 30, 0),
           Dz(0, 1, 0, 0, 0, 0, 0), Dz(0, 0, 0, 20, 1, 29, 59), Dz(0, 0, 0, -1, 0, 0, 0), Dz(0, 0, 0, -1, -12, 0, 0), Dz(0, 0, 0, 0, -36, 0, 0), Dz(0, 0, 1, 3, 0, 0, 1),
           Dz(0, 0, 0, 0, 47, 59, 59), Dz(0, -1, 0, -15, 0, 0, 0), Dz(1, 0, 0, 0, 0, 0, 0), Dz(0, 0, 0, 0, 0, 0, 0), Dz(0, 0, 0, 0, 0, 90, 0), Dz(0, 0, 0, 1, 23, 30, 0), Dz(0, 0, 0, -1, -23, -30, 0), Dz(0, 0, 0, 19, 23, 30, 0)}
Modes5 == {"halfExpand", "ceil", "floor", "trunc", "halfEven"}
MCOpts == {[lg |-> lg, sm |-> sm, inc |-> inc, mode |-> m] : lg \in {"year", "month", "week", "day", "hour"}, sm \in {"month", "week", "day", "hour", "minute", "second", "nanosecond"},
                                                             inc \in {1, 2, 15}, m \in Modes5}
QInstants == {7 * 86400 + 6 * H + 1800,   \* 02:30 a week after the skipped 02:30: a rounded -P7D bubbles to -P1W through the skipped reading (resolved forward: compatible)
              5 * H,          \* local midnight of the 23 h day of the DST zone
              -86400 - 6 * H, 7 * H - 1800, 7 * H, 12 * H, 86400 + 6 * H, 86400 + 12 * H,   \* (the last one: two wall days after the skipped day - one day back lands on it)
              20 * 86400 - 12 * H, 20 * 86400 + 6 * H, 19 * 86400 + 5 * H + 1800, -30 * 86400 + 3 * H}
QOpts == {o \in MCOpts : o.mode \in {"halfExpand", "ceil", "trunc"} /\ o.inc \in {1, 2}}
QDiffModes == {"halfExpand"}
TDiffModes == Modes5
MCTotalUnits == {"month", "week", "day", "hour", "second"}
ZCls(z) == IF NT(z) = 0 THEN "fixed" ELSE IF AbsI(z.trans[1].off - z.init) >= 23 * H THEN "24h" ELSE "dst"
NearTransition == \E i \in 1..NT(last.z) : AbsI(last.z.trans[i].at - last.t) <= 3 * 86400
Cls == last.op \o "/" \o ZCls(last.z) \o (IF NearTransition THEN "/near" ELSE "/far")
       \o (IF last.op \in {"untilR", "sinceR"} THEN "/lg-" \o last.o.lg \o "/sm-" \o last.o.sm ELSE "")
       \o (IF last.op = "round" THEN "/lg-" \o last.o.lg \o "/sm-" \o last.o.sm ELSE IF last.op = "total" THEN "/" \o last.u ELSE "")
CaseOf ==
  CASE last.op = "round" -> [op |-> "ZDur.round", cls |-> Cls, args |-> [zone |-> last.z, t |-> last.t, recv |-> last.dur, st |-> [largest |-> last.o.lg, smallest |-> last.o.sm, inc |-> last.o.inc, mode |-> last.o.mode]], out |-> last.out]
    [] last.op \in {"untilR", "sinceR"} -> [op |-> IF last.op = "untilR" THEN "Zoned.until" ELSE "Zoned.since", cls |-> Cls,
                                             args |-> [zone |-> last.z, t |-> last.t, other |-> last.t2, st |-> [largest |-> last.o.lg, smallest |-> last.o.sm, inc |-> last.o.inc, mode |-> last.o.mode]], out |-> last.out]
    [] last.op = "total" -> [op |-> "ZDur.total", cls |-> Cls, args |-> [zone |-> last.z, t |-> last.t, recv |-> last.dur, unit |-> last.u],
                             out |-> IF last.out.kind = "ok" THEN [kind |-> "ratio", n |-> FromInt(last.out.val.n), d |-> FromInt(last.out.val.d)] ELSE last.out]
    [] last.op = "compare" -> [op |-> "ZDur.compare", cls |-> Cls, args |-> [zone |-> last.z, t |-> last.t, recv |-> last.dur, other |-> last.b], out |-> last.out]
Emit == last.op = "none" \/ PrintT("CASE " \o ToJson(CaseOf))
=============================================================================
