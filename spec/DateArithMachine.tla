-------------------------- MODULE DateArithMachine --------------------------
(* Session state machine over DateArith (used by model checking, case generation and trace validation) and the laws of C04. *)
EXTENDS DateArith

CONSTANTS Window, DurSet, LargestSet,    \* dates explored, durations (records y,mo,w,d) tried, largest units tried
          OneStep                          \* TRUE: explore every single transition from every window date once (model checking);
                                           \* FALSE: unbounded sessions (trace validation)
VARIABLES cur, last
vars == <<cur, last>>

None == [op |-> "none"]
Init == cur \in Window /\ last = None

Until(b, u) == /\ last' = [op |-> "until", a |-> cur, b |-> b, u |-> u, r |-> Diff(cur, b, u)]
               /\ cur' = b
Since(b, u) == /\ last' = [op |-> "since", a |-> cur, b |-> b, u |-> u, r |-> Diff(cur, b, u)]
               /\ cur' = b
AddAct(D, ovf) == LET o == AddDateI(cur, D.y, D.mo, D.w, D.d, ovf)
                  IN /\ last' = [op |-> "add", a |-> cur, dur |-> D, ovf |-> ovf, out |-> o]
                     /\ cur' = IF o.kind = "ok" /\ o.val \in Window THEN o.val ELSE cur
\* a duration that also carries a time part: its whole days (24 h each, toward zero) are added with the days. tf = [h, short]:
\* h hours, or - short - one nanosecond less than h hours; the sign is that of the date part (positive when there is none)
AbsSmall(D) == D.y \in {-1, 0, 1} /\ D.mo \in {-1, 0, 1} /\ D.w = 0 /\ D.d \in {-1, 0, 1}
TimeForms == {[h |-> 24, short |-> FALSE], [h |-> 24, short |-> TRUE], [h |-> 48, short |-> FALSE], [h |-> 3096, short |-> TRUE], [h |-> 4800, short |-> TRUE], [h |-> 4800, short |-> FALSE]}
SgnOfD(D) == IF D.y < 0 \/ D.mo < 0 \/ D.w < 0 \/ D.d < 0 THEN -1 ELSE 1
TimeDays(tf) == IF tf.short THEN (tf.h * 3600 - 1) \div 86400 ELSE (tf.h * 3600) \div 86400
AddTimeAct(D, tf, ovf) == LET sg == SgnOfD(D)   o == AddDateI(cur, D.y, D.mo, D.w, D.d + sg * TimeDays(tf), ovf)
                          IN /\ last' = [op |-> "addTime", a |-> cur, dur |-> D, tf |-> tf, sg |-> sg, ovf |-> ovf, out |-> o]
                             /\ cur' = cur
SubAct(D, ovf) == LET o == AddDateI(cur, -D.y, -D.mo, -D.w, -D.d, ovf)
                  IN /\ last' = [op |-> "subtract", a |-> cur, dur |-> D, ovf |-> ovf, out |-> o]
                     /\ cur' = IF o.kind = "ok" /\ o.val \in Window THEN o.val ELSE cur

\* leap-day receivers against the days around the end of February of the neighbouring years (and the reverse): the candidate
\* "same month and day, n years away" does not exist there
AnchorDate == CHOOSE d \in Window : TRUE
LeapYears == {2020, 2024, 2000}
LeapPairs == UNION {{<<Date(y, 2, 29), Date(y + dy, m, d)>> : dy \in {-5, -4, -1, 1, 3, 4}, m \in {2, 3}, d \in {1, 28}} : y \in LeapYears}
LeapUntil(pr, u, rev) == LET a == IF rev THEN pr[2] ELSE pr[1]   b == IF rev THEN pr[1] ELSE pr[2]
                         IN /\ cur = AnchorDate /\ ValidDate(a) /\ ValidDate(b)
                            /\ last' = [op |-> "until", a |-> a, b |-> b, u |-> u, r |-> Diff(a, b, u)] /\ UNCHANGED cur
LeapSince(pr, u, rev) == LET a == IF rev THEN pr[2] ELSE pr[1]   b == IF rev THEN pr[1] ELSE pr[2]
                         IN /\ cur = AnchorDate /\ ValidDate(a) /\ ValidDate(b)
                            /\ last' = [op |-> "since", a |-> a, b |-> b, u |-> u, r |-> Diff(a, b, u)] /\ UNCHANGED cur
\* leap days moved by whole years across the Gregorian exceptions: a multiple of 4 years from a leap day does NOT always land on a
\* leap day (2096 + 4, 1896 + 4, -104 + 4; 2000 +- 100), a multiple of 400 always does
CenturyLeapDays == {Date(2096, 2, 29), Date(2104, 2, 29), Date(1896, 2, 29), Date(1904, 2, 29), Date(2000, 2, 29), Date(1600, 2, 29), Date(-104, 2, 29), Date(0, 2, 29)}
CenturyYears == {4, -4, 8, -8, 100, -100, 200, 400, -400, 104, 96}
CenturyAct(a, y, mo, d, ovf) == /\ cur = AnchorDate
                                /\ last' = [op |-> "add", a |-> a, dur |-> [y |-> y, mo |-> mo, w |-> 0, d |-> d], ovf |-> ovf, out |-> AddDateI(a, y, mo, 0, d, ovf)] /\ UNCHANGED cur
Next == /\ (OneStep => last = None)
        /\ \/ \E b \in Window, u \in LargestSet : Until(b, u) \/ Since(b, u)
           \/ \E pr \in LeapPairs, u \in LargestSet, rev \in BOOLEAN : LeapUntil(pr, u, rev) \/ LeapSince(pr, u, rev)
           \/ \E D \in DurSet, ovf \in {"constrain", "reject"} : AddAct(D, ovf) \/ SubAct(D, ovf)
           \/ (DurSet # {} /\ \E a \in CenturyLeapDays, y \in CenturyYears, ovf \in {"constrain", "reject"} : \E mo \in {0, 12 * SgnI(y)}, d \in {0, SgnI(y)} : CenturyAct(a, y, mo, d, ovf))
           \/ \E D \in DurSet, tf \in TimeForms, ovf \in {"constrain"} : AbsSmall(D) /\ AddTimeAct(D, tf, ovf)
Spec == Init /\ [][Next]_vars

(* ---------------- properties (state invariants over the last transition) ---------------- *)
IsDiff == last.op \in {"until", "since"}
InverseLaw == IsDiff =>
  LET r == last.r IN AddDateI(last.a, r.y, r.mo, r.w, r.d, "constrain") = Ok(last.b)
ClosedEqualsLiteral == IsDiff => last.r = DiffLiteral(last.a, last.b, last.u)
DiffShape == IsDiff => /\ Balanced(last.r, last.u)
                       /\ SignOK(last.r, -CmpDate(last.a, last.b))
DayIsDistance == (IsDiff /\ last.u = "day") => last.r.d = DFC(last.b) - DFC(last.a)
\* a.since(b) = -(a.until(b)) by definition here; the cross-law is: b.until(a) relates to a.until(b) only through add
AddWellFormed == (last.op \in {"add", "subtract"} /\ last.out.kind = "ok") =>
                    ValidDate(last.out.val) /\ InDateRange(DFC(last.out.val))
SubIsAddNeg == last.op = "subtract" =>
  last.out = AddDateI(last.a, -last.dur.y, -last.dur.mo, -last.dur.w, -last.dur.d, last.ovf)
RejectRule == (last.op = "add" /\ last.ovf = "reject") =>
  LET ym == BalYM(last.a.y + last.dur.y, last.a.m + last.dur.mo)
  IN (last.a.d > DIM(ym.y, ym.m)) => last.out = ErrRange

=============================================================================
