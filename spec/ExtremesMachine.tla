--------------------------- MODULE ExtremesMachine ---------------------------
(***************************************************************************)
(* C03: the outcome alphabet and the generator of extreme-but-valid         *)
(* arguments. Every public operation must end in one of OkKinds ("ok",      *)
(* "type", "range", "syntax"; "generic" only for calls that touch the file   *)
(* system): there is no transition of any specification in this library for *)
(* "panic", "assert" or "timeout", so an event with such an outcome is      *)
(* unexplainable in every trace of every property. This machine enumerates, *)
(* per operation, the cross product of extreme representatives (years       *)
(* +-271821, day 31, duration fields 2^32-1 / 2^53 s / 9e24 ns, increments  *)
(* up to 1e9, every unit and mode, instants at +-8.64e21); the expected      *)
(* outcome is "any" (non-panicking) - value correctness is the business of   *)
(* the other properties.                                                     *)
(***************************************************************************)
EXTENDS TimeOfDay, Gregorian

VARIABLES cell, last
vars == <<cell, last>>
None == [op |-> "none"]
Bg(s, l) == [s |-> s, l |-> l]
One == FromInt(1)
P32m1 == Bg(1, <<7295, 9496, 42>>)                            \* 2^32 - 1
P53m1 == Bg(1, <<991, 5474, 1992, 9007>>)                     \* 2^53 - 1
MaxNs == Bg(1, <<4704, 9882, 5166, 8458, 327, 8357, 4>>)   \* 2^82 ns = 4.8e24 ns (exactly representable as a double, below the 2^53 s limit)
MaxDaysDur == Bg(1, <<1374, 4999, 1042>>)                     \* 104249991374 days
MaxInst == Bg(1, <<0, 0, 0, 0, 4000, 86>>)                    \* 8.64e21
Dz == [y |-> Zero, mo |-> Zero, w |-> Zero, d |-> Zero, h |-> Zero, mi |-> Zero, s |-> Zero, ms |-> Zero, us |-> Zero, ns |-> Zero]
PosDurs == {Dz, [Dz EXCEPT !.y = P32m1], [Dz EXCEPT !.mo = P32m1], [Dz EXCEPT !.w = P32m1], [Dz EXCEPT !.d = MaxDaysDur], [Dz EXCEPT !.s = P53m1], [Dz EXCEPT !.ns = MaxNs],
            [Dz EXCEPT !.h = FromInt(2147483647)], [Dz EXCEPT !.y = FromInt(2147483647)], [Dz EXCEPT !.d = FromInt(2147483647)], [Dz EXCEPT !.w = FromInt(400000000)], [Dz EXCEPT !.mo = FromInt(7000000)],
            [y |-> One, mo |-> One, w |-> One, d |-> One, h |-> One, mi |-> One, s |-> One, ms |-> One, us |-> One, ns |-> One],
            [Dz EXCEPT !.y = FromInt(547581)], [Dz EXCEPT !.d = FromInt(200000001)], [Dz EXCEPT !.ns = One], [Dz EXCEPT !.h = FromInt(24)]}
Durs == PosDurs \cup {NegDur(D) : D \in PosDurs}
\* astronomically large integral doubles in one field (2^81, 2^100, 2^120): far beyond every limit - the validity check itself must survive them
P81 == Bg(1, <<2352, 4941, 2583, 9229, 5163, 4178, 2>>)
P100 == Bg(1, <<5376, 320, 4967, 9401, 2822, 6002, 7650, 126>>)
HugeDurs == UNION {{[Dz EXCEPT !.y = v], [Dz EXCEPT !.mo = v], [Dz EXCEPT !.w = v], [Dz EXCEPT !.d = v], [Dz EXCEPT !.h = v], [Dz EXCEPT !.mi = v], [Dz EXCEPT !.s = v],
                    [Dz EXCEPT !.ms = v], [Dz EXCEPT !.us = v], [Dz EXCEPT !.ns = v], [Dz EXCEPT !.d = Neg(v)], [Dz EXCEPT !.d = v, !.h = v, !.ns = v]} : v \in {P81, P100}}
Dates == {Date(-271821, 4, 19), Date(275760, 9, 13), Date(0, 2, 29), Date(-1, 12, 31), Date(1970, 1, 1), Date(2020, 1, 31), Date(275760, 1, 31), Date(-271821, 5, 31)}
Times == {Time(0, 0, 0, 0, 0, 0), Time(23, 59, 59, 999, 999, 999), Time(12, 30, 30, 500, 500, 500)}
DTJ(dt, t) == [y |-> dt.y, m |-> dt.m, d |-> dt.d, h |-> t.h, mi |-> t.mi, s |-> t.s, ms |-> t.ms, us |-> t.us, ns |-> t.ns]
DTs == {DTJ(Date(-271821, 4, 19), Time(0, 0, 0, 0, 0, 1)), DTJ(Date(275760, 9, 13), Time(23, 59, 59, 999, 999, 999)), DTJ(Date(0, 2, 29), Time(12, 30, 30, 500, 500, 500)), DTJ(Date(1970, 1, 1), Time(0, 0, 0, 0, 0, 0))}
Insts == {MaxInst, Neg(MaxInst), Zero, Neg(One), Sub(MaxInst, One), Bg(-1, <<0, 0, 0, 0, 4000, 43>>)}
Incs == {1, 2, 7, 1000, 999999999, 1000000000}
AllUnits == UnitSet
St4(lg, sm, inc, mode) == [largest |-> lg, smallest |-> sm, inc |-> inc, mode |-> mode]
Sts == {St4(lg, sm, inc, m) : lg \in AllUnits \cup {"auto"}, sm \in AllUnits, inc \in Incs, m \in {"halfExpand", "ceil", "trunc", "halfEven"}}
StsFew == {St4(lg, sm, inc, m) : lg \in {"year", "week", "day", "hour", "nanosecond", "auto"}, sm \in {"year", "month", "week", "day", "hour", "second", "nanosecond"}, inc \in {1, 7, 1000000000}, m \in {"halfExpand", "trunc"}}
Ovfs == {"constrain", "reject"}

CONSTANT Families
Cells ==
  (IF "date" \in Families THEN
     {[op |-> o, args |-> [recv |-> dt, dur |-> D, ovf |-> v]] : o \in {"PlainDate.add", "PlainDate.subtract"}, dt \in Dates, D \in Durs, v \in Ovfs}
     \cup {[op |-> o, args |-> [recv |-> a, other |-> b, st |-> st]] : o \in {"PlainDate.until", "PlainDate.since"}, a \in Dates, b \in Dates, st \in StsFew}
     \cup {[op |-> o, args |-> [recv |-> dt]] : o \in {"PlainDate.fields", "PlainDate.epochNsUtc", "PlainDateTime.fromPlainDate"}, dt \in Dates}
   ELSE {})
  \cup (IF "datetime" \in Families THEN
     {[op |-> o, args |-> [recv |-> x, dur |-> D, ovf |-> v]] : o \in {"PlainDateTime.add", "PlainDateTime.subtract"}, x \in DTs, D \in Durs, v \in Ovfs}
     \cup {[op |-> o, args |-> [recv |-> a, other |-> b, st |-> st]] : o \in {"PlainDateTime.until", "PlainDateTime.since"}, a \in DTs, b \in DTs, st \in StsFew}
     \cup {[op |-> "PlainDateTime.round", args |-> [recv |-> x, st |-> st]] : x \in DTs, st \in StsFew}
   ELSE {})
  \cup (IF "time" \in Families THEN
     {[op |-> o, args |-> [recv |-> t, dur |-> D]] : o \in {"PlainTime.add", "PlainTime.subtract"}, t \in Times, D \in Durs}
     \cup {[op |-> o, args |-> [recv |-> a, other |-> b, st |-> st]] : o \in {"PlainTime.until", "PlainTime.since"}, a \in Times, b \in Times, st \in StsFew}
     \cup {[op |-> "PlainTime.round", args |-> [recv |-> t, st |-> st]] : t \in Times, st \in StsFew}
   ELSE {})
  \cup (IF "instant" \in Families THEN
     {[op |-> o, args |-> [recv |-> i, dur |-> D]] : o \in {"Instant.add", "Instant.subtract"}, i \in Insts, D \in Durs}
     \cup {[op |-> o, args |-> [recv |-> a, other |-> b, st |-> st]] : o \in {"Instant.until", "Instant.since"}, a \in Insts, b \in Insts, st \in StsFew}
     \cup {[op |-> "Instant.round", args |-> [recv |-> i, st |-> st]] : i \in Insts, st \in StsFew}
     \cup {[op |-> "Instant.epochMs", args |-> [recv |-> i]] : i \in Insts}
     \cup {[op |-> "Instant.toDateUtc", args |-> [ns |-> i]] : i \in Insts}
   ELSE {})
  \cup (IF "duration" \in Families THEN
     {[op |-> "Duration.new", args |-> [dur |-> D]] : D \in Durs \cup HugeDurs}
     \cup {[op |-> o, args |-> [recv |-> a, other |-> b]] : o \in {"Duration.add", "Duration.subtract", "Duration.compare"}, a \in Durs, b \in Durs}
     \cup {[op |-> o, args |-> [recv |-> a, other |-> b, rel |-> r]] : o \in {"Duration.compare"}, a \in Durs, b \in Durs, r \in {Date(2020, 1, 31), Date(275760, 9, 13), Date(-271821, 4, 19)}}
     \cup {[op |-> "Duration.round", args |-> [recv |-> a, st |-> st]] : a \in Durs, st \in StsFew}
     \cup {[op |-> "Duration.round", args |-> [recv |-> a, st |-> st, rel |-> r]] : a \in Durs, st \in StsFew, r \in {Date(2020, 1, 31), Date(275760, 9, 13), Date(-271821, 4, 19)}}
     \cup {[op |-> "Duration.total", args |-> [recv |-> a, unit |-> u]] : a \in Durs, u \in AllUnits}
     \cup {[op |-> "Duration.total", args |-> [recv |-> a, unit |-> u, rel |-> r]] : a \in Durs, u \in AllUnits, r \in {Date(2020, 1, 31), Date(275760, 9, 13), Date(-271821, 4, 19)}}
   ELSE {})

\* synthetic zones (offsets in seconds; transitions relative to the synthetic base day, see TimeZone.tla)
HH == 3600
XZones == {[init |-> -5 * HH, trans |-> <<[at |-> 7 * HH, off |-> -4 * HH], [at |-> 20 * 86400 + 6 * HH, off |-> -5 * HH]>>],
           [init |-> -10 * HH, trans |-> <<[at |-> 10 * HH, off |-> 14 * HH]>>],
           [init |-> 14 * HH, trans |-> <<[at |-> 10 * HH, off |-> -10 * HH]>>],
           [init |-> 5 * HH + 1800, trans |-> <<>>]}
XRecv == {[abs |-> i] : i \in Insts} \cup {[rel |-> t] : t \in {7 * HH - 1, 7 * HH, 10 * HH, 10 * HH - 1, 20 * 86400 + 6 * HH - 1800, -86400}}
XDurs == {D \in Durs : \/ D \in {Dz, [y |-> One, mo |-> One, w |-> One, d |-> One, h |-> One, mi |-> One, s |-> One, ms |-> One, us |-> One, ns |-> One]}
                       \/ Abs(D.y) = P32m1 \/ Abs(D.d) \in {MaxDaysDur, FromInt(200000001), FromInt(2147483647)} \/ Abs(D.s) = P53m1 \/ Abs(D.ns) \in {MaxNs, One} \/ Abs(D.h) = FromInt(24)
                       \/ Abs(D.mo) = FromInt(7000000) \/ Abs(D.y) = FromInt(547581)}
XSts == {St4(lg, sm, inc, m) : lg \in {"year", "week", "day", "hour", "nanosecond", "auto"}, sm \in {"year", "month", "day", "hour", "nanosecond"}, inc \in {1, 7}, m \in {"halfExpand", "trunc"}}
ZonedCells ==
  IF "zoned" \in Families THEN
     {[op |-> o, args |-> [zone |-> z, recv |-> r, dur |-> D, ovf |-> v]] : o \in {"ZonedX.add", "ZonedX.subtract"}, z \in XZones, r \in XRecv, D \in XDurs, v \in Ovfs}
     \cup {[op |-> o, args |-> [zone |-> z, recv |-> r, other |-> r2, st |-> st]] : o \in {"ZonedX.until", "ZonedX.since"}, z \in XZones, r \in XRecv, r2 \in XRecv, st \in XSts}
     \cup {[op |-> o, args |-> [zone |-> z, recv |-> r]] : o \in {"ZonedX.startOfDay", "ZonedX.hoursInDay", "ZonedX.fields", "ZonedX.toString"}, z \in XZones, r \in XRecv}
     \cup {[op |-> "ZonedX.withPlainTime", args |-> [zone |-> z, recv |-> r, time |-> t]] : z \in XZones, r \in XRecv, t \in Times}
     \* a provider reporting an impossible offset (+-10^10 s, +-9 223 372 037 s - the first whose nanoseconds leave 64 bits -, 10^12 s): still no panic, assertion or hang
     \cup {[op |-> "ZonedX.absurd", args |-> [off |-> o, recv |-> r]] : o \in {Bg(1, <<0, 0, 100>>), Bg(-1, <<0, 0, 100>>), Bg(1, <<2037, 3372, 92>>), Bg(-1, <<2037, 3372, 92>>), Bg(1, <<0, 0, 0, 1>>)}, r \in XRecv}
     \cup {[op |-> "ZonedX.fromLocal", args |-> [zone |-> z, dt |-> x, dis |-> ds]] : z \in XZones, x \in DTs, ds \in {"compatible", "earlier", "later", "reject"}}
     \* the public formatter records (temporal_rs::parsers: fields are public, Display is implemented): any field values, no panic
     \* (-1 stands for the maximum of the unsigned field type)
     \cup {[op |-> "FmtbX.date", args |-> [y |-> y, m |-> m, d |-> d]] : y \in {-2147483647 - 1, 2147483647, 1000000, -1000000, 999999, -999999, 0, 9999, 10000, -1}, m \in {0, 1, 12, 13, 99, 100, 255}, d \in {0, 31, 100, 255}}
     \cup {[op |-> "FmtbX.time", args |-> [h |-> h, mi |-> mi, s |-> sc, ns |-> ns, prec |-> p]] : h \in {0, 23, 24, 99, 100, 255}, mi \in {0, 59, 60, 255}, sc \in {0, 59, 60, 255},
             ns \in {0, 999999999, 1000000000, 2147483647}, p \in {-1, -2, 0, 3, 9, 10, 255}}
     \cup {[op |-> "FmtbX.duration", args |-> [form |-> f, h |-> h, mi |-> mi, s |-> sc, fr |-> fr, prec |-> p, date |-> dt, y |-> y, d |-> d]] :
             f \in {"hours", "minutes", "seconds", "none"}, h \in {0, 1, -1}, mi \in {0, 1, -1}, sc \in {0, -1}, fr \in {0, 1, 999999999, -1}, p \in {-1, 0, 9, 255}, dt \in {0, 1}, y \in {0, -1}, d \in {0, -1}}
     \* a time zone identifier of n components ("a/a/.../a"): however long, an answer and no exhausted stack
     \cup {[op |-> "MiscX.deepZoneId", args |-> [n |-> n]] : n \in {1, 1000, 300000}}
     \* the bundled provider asked directly (its trait methods are public) about a time of +-10^k seconds in a zone with a rule footer: an answer
     \* or a RangeError, never an overflow in the year arithmetic
     \* (k = 13, 14, 15, 18: beyond the instants; from about 1.9 * 10^14 s the day count leaves 32 bits)
     \cup {[op |-> "MiscX.farProviderQuery", args |-> [zone |-> z, k |-> k, neg |-> n]] : z \in {"America/New_York", "Europe/Berlin", "Asia/Tokyo"}, k \in {12, 13, 14, 15, 18}, n \in BOOLEAN}
     \* an instant printed without a time zone, with a provider that has no data at all: no zone is involved, so an answer
     \cup {[op |-> "MiscX.instantTextNoData", args |-> [ns |-> i]] : i \in Insts}
     \* texts with n digits where a few are expected (offset seconds fraction, time fraction, year, duration field): any length, an answer
     \cup {[op |-> "MiscX.longDigits", args |-> [where |-> w, n |-> n]] : w \in {"offset-fraction", "time-fraction", "zone-offset-fraction", "duration-field", "duration-fraction", "year"}, n \in {9, 10, 255, 256, 261, 65536, 70000}}
     \* a property bag with an extreme year in the calendars whose arithmetic is this crate's or plain ICU arithmetic (the astronomical
     \* and lunisolar ones assert inside icu_calendar far from the present: C16's recorded finding)
     \cup {[op |-> "MiscX.partialYear", args |-> [cal |-> c, year |-> y, era |-> e]] :
             c \in {"iso8601", "gregory", "japanese", "roc", "buddhist", "coptic", "ethiopic", "indian", "persian", "islamic-civil", "islamic-tbla"},
             y \in {-2147483647 - 1, 2147483647, -271821, 275760, 0, -1, 1}, e \in BOOLEAN}
  ELSE {}

Init == cell \in Cells \cup ZonedCells /\ last = None
Step == last = None /\ last' = [op |-> cell.op, args |-> cell.args, out |-> [kind |-> "any"]] /\ UNCHANGED cell
Next == Step
Spec == Init /\ [][Next]_vars
\* the alphabet: what an explainable outcome looks like
Explainable(kind) == kind \in OkKinds
Alphabet == last.op = "none" \/ last.out.kind = "any"
=============================================================================
