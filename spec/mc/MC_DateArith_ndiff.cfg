SPECIFICATION Spec
CONSTANTS
  Window <- NWindow
  DurSet <- NoDur
  LargestSet <- AllLargest
  OneStep = TRUE
INVARIANTS InverseLaw ClosedEqualsLiteral DiffShape DayIsDistance AddWellFormed SubIsAddNeg RejectRule 
CHECK_DEADLOCK FALSE
