SPECIFICATION Spec
CONSTANTS
  StartDay <- LoStart
  StartDate <- LoDate
  Lo <- LoStart
  Hi <- LoHi
INVARIANTS ClosedFormAgrees WellFormed Cycle DoyRule WeekRules OrderIso RangeEnds 
CHECK_DEADLOCK FALSE
