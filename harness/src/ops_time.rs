//! PlainTime and Instant operations (C06, C07).
use crate::js::{self, big, int};
use crate::ops::{utc, FS};
use crate::proj::*;
use serde_json::{json, Value};
use temporal_rs::options::*;
use temporal_rs::*;

fn td(a: &Value) -> bool { a.get("via").and_then(|v| v.as_str()) == Some("td") }
pub fn exec(op: &str, a: &Value) -> Option<Value> {
    Some(match op {
        // "via": "td" = the twin entry points that take the time part alone
        "PlainTime.add" => run(|| if td(a) { arg_time(&a["recv"])?.add_time_duration(arg_duration(&a["dur"])?.time()) } else { arg_time(&a["recv"])?.add(&arg_duration(&a["dur"])?) }, p_time),
        "PlainTime.subtract" => run(|| if td(a) { arg_time(&a["recv"])?.subtract_time_duration(arg_duration(&a["dur"])?.time()) } else { arg_time(&a["recv"])?.subtract(&arg_duration(&a["dur"])?) }, p_time),
        "PlainTime.until" => run(|| arg_time(&a["recv"])?.until(&arg_time(&a["other"])?, arg_settings(&a["st"])?), p_duration),
        "PlainTime.since" => run(|| arg_time(&a["recv"])?.since(&arg_time(&a["other"])?, arg_settings(&a["st"])?), p_duration),
        "PlainTime.round" => run(|| {
            let st = &a["st"];
            arg_time(&a["recv"])?.round(arg_unit(js::s(st, "smallest")), st.get("inc").and_then(|x| x.as_i64()).map(|x| x as f64), js::opt_s(st, "mode").map(arg_mode))
        }, p_time),
        "Instant.new" => run(|| arg_instant(&a["ns"]), p_instant),
        "Instant.add" => run(|| if td(a) { arg_instant(&a["recv"])?.add_time_duration(arg_duration(&a["dur"])?.time()) } else { arg_instant(&a["recv"])?.add(arg_duration(&a["dur"])?) }, p_instant),
        "Instant.subtract" => run(|| if td(a) { arg_instant(&a["recv"])?.subtract_time_duration(arg_duration(&a["dur"])?.time()) } else { arg_instant(&a["recv"])?.subtract(arg_duration(&a["dur"])?) }, p_instant),
        "Instant.until" => run(|| arg_instant(&a["recv"])?.until(&arg_instant(&a["other"])?, arg_settings(&a["st"])?), p_duration),
        "Instant.since" => run(|| arg_instant(&a["recv"])?.since(&arg_instant(&a["other"])?, arg_settings(&a["st"])?), p_duration),
        "Instant.round" => run(|| arg_instant(&a["recv"])?.round(arg_rounding(&a["st"])?), p_instant),
        "Instant.epochMs" => run(|| Ok(arg_instant(&a["recv"])?.epoch_milliseconds()), |ms| big(*ms as i128)),
        "Instant.fromEpochMs" => run(|| { let ms = num(&a["ms"]); Instant::from_epoch_milliseconds(i64::try_from(ms).expect("ms fits i64")) }, p_instant),
        _ => return None,
    })
}
