"""C14 — ZonedDateTime arithmetic is wall-clock for dates, exact for times."""
from . import lib
from .props import quick, corrupt_first, head_of, bump_big


def run(run):
    b = lib.build_harness("dev")
    q = quick(run)
    # (no -coverage here: with coverage collection TLC 1.8 spends more than 15 minutes before the first state of this instance)
    run.mc("mc/MC_ZonedArith.tla", "mc/MC_ZonedArith.cfg", workers=8, timeout=1500, coverage=False) if not q else None
    cases, n = run.gen("mc/MC_ZonedArith.tla", "gen/Gen_C14.cfg", workers=8, name="zoned", timeout=1500)
    run.replay(b, cases, label="zoned")
    run.negative_control_replay(b, cases, corrupt_first(lambda e: e["op"] == "Zoned.startOfDay" and e["out"]["kind"] == "ok", lambda e: e["out"].__setitem__("val", e["out"]["val"] + 3600)), limit=200000)
    # Duration round / total / compare relative to a zoned date-time (ZonedRound: NudgeToZonedTime, zoned brackets, bubbling)
    cases2, n2 = run.gen("mc/MC_ZonedRound.tla", "gen/Gen_C14_zround_q.cfg" if q else "gen/Gen_C14_zround.cfg", workers=8, name="zround", timeout=1500)
    run.replay(b, cases2, label="zround")
    tr = run.record(b, "c14", 8000 if q else 120000)
    run.validate("trace/Trace_Zone.tla", "trace/Trace_Zone.cfg", tr)
    small = head_of(run, tr, 300, "c14.small.trace.ndjson")
    run.negative_control_trace("trace/Trace_Zone.tla", "trace/Trace_Zone.cfg", small,
                               corrupt_first(lambda e: e.get("op") in ("Zoned.until", "Zoned.since") and e["out"]["kind"] == "ok", lambda e: bump_big(e["out"]["val"]["h"])))
    run.cov["rule"] = ("replay: every (zone, instant, duration) add/subtract, (zone, instant pair, largest unit) until/since, start-of-day and hours-in-day transition of the bounded ZonedArith instance "
                      "(+1 h DST pair, -1 h, 30 min, 24 h skip, 24 h repeat, fixed offsets; instants on a grid around each transition), and every (zone, instant, duration, option set) "
                      "Duration.round / total / compare relative to a zoned date-time of the bounded ZonedRound instance; traces: seeded random synthetic zones, all of these operations")
    run.cov["distinct_nontrivial"] = run.cov["evaluations"]
    run.assumptions += ["synthetic TimeZoneProvider (harness/src/synth_tz.rs); durations with whole seconds only (the sub-second part .123456789 of every instant must be preserved)",
                        "the inverse law add(until) is stated for receivers that are the compatible reading of their own wall time (Temporal itself does not round-trip from the second occurrence of a repeated time)",
                        "hours_in_day returns an integer type: for a day whose length is not a whole number of hours the answer must be one of the two neighbouring integers (floor or ceiling of the exact length)"]
