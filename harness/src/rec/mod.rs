//! impl -> spec: seeded drivers that run sessions against the real API and write NDJSON traces.
use crate::ops;
use crate::rng::Rng;
use serde_json::{json, Value};
use std::io::Write;

pub mod c01;
pub mod c02;
pub mod c03;
pub mod c04;
pub mod c05;
pub mod c06;
pub mod c07;
pub mod c08;
pub mod c09;
pub mod c10;
pub mod c11;
pub mod c12;
pub mod c13;
pub mod c14;
pub mod c15;
pub mod c16;
pub mod c17;
pub mod c18;
pub mod c19;
pub mod c20;

pub struct Tracer { f: std::io::BufWriter<std::fs::File>, pub n: usize }
impl Tracer {
    pub fn call(&mut self, op: &str, args: Value) -> Value {
        let out = ops::exec(op, &args);
        writeln!(self.f, "{}", json!({"op": op, "args": args, "out": out})).unwrap();
        self.n += 1;
        out
    }
    pub fn reset(&mut self) { writeln!(self.f, "{}", json!({"op": "reset"})).unwrap(); self.n += 1; }
}

pub fn main(a: &[String]) {
    let driver = a[0].as_str();
    let seed: u64 = a[1].parse().expect("seed");
    let n: usize = a[2].parse().expect("n");
    let mut t = Tracer { f: std::io::BufWriter::new(std::fs::File::create(&a[3]).expect("out")), n: 0 };
    let mut r = Rng::new(seed);
    let f: fn(&mut Tracer, &mut Rng, usize) = match driver {
        "c01" => c01::drive,
        "c02" => c02::drive,
        "c03" => c03::drive,
        "c04" => c04::drive,
        "c05" => c05::drive,
        "c06" => c06::drive,
        "c07" => c07::drive,
        "c08" => c08::drive,
        "c18r" => c08::drive_ym,
        "c09" => c09::drive,
        "c10" => c10::drive,
        "c11" => c11::drive,
        "c12" => c12::drive,
        "c13" => c13::drive,
        "c14" => c14::drive,
        "c15" => c15::drive,
        "c16" => c16::drive,
        "c17" => c17::drive,
        "c18" => c18::drive,
        "c19" => c19::drive,
        "c20" => c20::drive,
        _ => { eprintln!("unknown driver {}", driver); std::process::exit(2); }
    };
    f(&mut t, &mut r, n);
    t.f.flush().unwrap();
    println!("{}", json!({"events": t.n}));
}
