-------------------------- MODULE MC_CalendarWalk --------------------------
(***************************************************************************)
(* Bounded instances of CalendarWalk:                                       *)
(*  free   - every walk the three step rules allow (months of 2..3 days,    *)
(*           3 months plus an optional leap month, two eras): the rules     *)
(*           imply the order-preserving bijection and the bounds;           *)
(*  toy    - a table-driven toy calendar (an inverse era, a leap month, an  *)
(*           era that starts in the middle of a year) obeys the rules, its  *)
(*           Rebuild is the identity, WithCalendar keeps the day; the same  *)
(*           table with a seeded bug (Bug # "none") violates an invariant;  *)
(*  offset - the fixed-offset solar calendars as defined in CalendarWalk,   *)
(*           walked over their era boundaries; every state is emitted as    *)
(*           CASE lines replayed into the real API.                         *)
(***************************************************************************)
EXTENDS CalendarWalk, TLC, Json

CONSTANTS Bug, FreeHi
F == FALSE
T == TRUE

(* ---------------- free model ---------------- *)
FreeStarts == {[f |-> [cal |-> "free", n |-> 0, era |-> e.era, ey |-> e.ey, year |-> 1, month |-> 1, mc |-> MC(1, FALSE), day |-> 1, doy |-> 1,
                       dim |-> d, diy |-> y, miy |-> m, leap |-> l], hi |-> FreeHi] :
                 d \in 2..MaxDim, y \in DiySet, m \in {3, 4}, l \in BOOLEAN,
                 e \in {[era |-> <<>>, ey |-> <<>>], [era |-> <<"a">>, ey |-> <<2>>]}}
NoFields(c, n) == Nil
NoFind(c, k) == 0

(* ---------------- toy calendars ---------------- *)
\* a year: number, era and era year on its first day, leap flag, months <<code number, leap month?, length>>,
\* and optionally an era that starts inside the year
Toy == <<
  [year |-> 0, era |-> "x-inverse", ey |-> 1, leap |-> F, months |-> << <<1, F, 3>>, <<2, F, 2>>, <<3, F, 3>> >>, start |-> <<>>],
  [year |-> 1, era |-> "x", ey |-> 1, leap |-> T, months |-> << <<1, F, 2>>, <<2, F, 3>>, <<2, T, 2>>, <<3, F, 3>> >>, start |-> <<>>],
  [year |-> 2, era |-> "x", ey |-> 2, leap |-> F, months |-> << <<1, F, 3>>, <<2, F, 3>>, <<3, F, 2>> >>,
   start |-> << [month |-> 2, day |-> 2, era |-> "y"] >>],
  [year |-> 3, era |-> "y", ey |-> 2, leap |-> F, months |-> << <<1, F, 2>>, <<2, F, 3>>, <<3, F, 3>> >>, start |-> <<>>] >>
Flat == << [year |-> 0, era |-> "", ey |-> 0, leap |-> F, months |-> << <<1, F, 4>>, <<2, F, 4>>, <<3, F, 4>> >>, start |-> <<>>],
           [year |-> 1, era |-> "", ey |-> 0, leap |-> F, months |-> << <<1, F, 4>>, <<2, F, 4>>, <<3, F, 4>> >>, start |-> <<>>],
           [year |-> 2, era |-> "", ey |-> 0, leap |-> F, months |-> << <<1, F, 4>>, <<2, F, 4>>, <<3, F, 4>> >>, start |-> <<>>] >>

RECURSIVE SumLen(_, _)
SumLen(ms, k) == IF k = 0 THEN 0 ELSE SumLen(ms, k - 1) + ms[k][3]
\* the days of one year, in order
YearDays(cal, Y) ==
  LET ms == Y.months
      diy == SumLen(ms, Len(ms))
      started(m, d) == Y.start # <<>> /\ (m > Y.start[1].month \/ (m = Y.start[1].month /\ d >= Y.start[1].day))
  IN [i \in 1..diy |->
        LET m == CHOOSE k \in 1..Len(ms) : SumLen(ms, k - 1) < i /\ i <= SumLen(ms, k)
            d == i - SumLen(ms, m - 1)
        IN [cal |-> cal, n |-> 0, year |-> Y.year,
            era |-> IF Y.era = "" THEN <<>> ELSE IF started(m, d) THEN <<Y.start[1].era>> ELSE <<Y.era>>,
            ey |-> IF Y.era = "" THEN <<>> ELSE IF started(m, d) THEN <<1>> ELSE <<Y.ey>>,
            month |-> m, mc |-> MC(ms[m][1], ms[m][2]), day |-> d, doy |-> i,
            dim |-> ms[m][3], diy |-> diy, miy |-> Len(ms), leap |-> Y.leap]]
RECURSIVE Flatten(_, _, _)
Flatten(cal, tab, k) == IF k = 0 THEN <<>> ELSE Flatten(cal, tab, k - 1) \o YearDays(cal, tab[k])
ToyAll == Flatten("toy", Toy, Len(Toy))
FlatAll == Flatten("flat", Flat, Len(Flat))
TableOf(cal) == IF cal = "toy" THEN ToyAll ELSE FlatAll

\* seeded defects of the toy "implementation" (each must be caught by an invariant)
Bugged(f) ==
  CASE Bug = "none" -> f
    [] Bug = "dim" -> IF f.cal = "toy" /\ f.year = 1 /\ f.month = 2 THEN [f EXCEPT !.dim = f.dim + 1] ELSE f
    [] Bug = "doy-from-zero" -> [f EXCEPT !.doy = f.doy - 1]
    [] Bug = "month-is-code-number" -> [f EXCEPT !.month = McNum(f.mc)]      \* ordinal month replaced by the number in the code
    [] Bug = "leap-code" -> IF McLeap(f.mc) THEN [f EXCEPT !.mc = MC(McNum(f.mc) + 1, FALSE)] ELSE f
    [] Bug = "era-year-continues" -> IF f.era = <<"y">> /\ f.year = 2 THEN [f EXCEPT !.ey = <<3>>] ELSE f
    [] OTHER -> f
ToyFieldsOf(cal, n) == IF n < 0 \/ n >= Len(TableOf(cal)) THEN Nil ELSE Bugged([TableOf(cal)[n + 1] EXCEPT !.n = n])
Matches(f, key) == \A k \in DOMAIN key : f[k] = key[k]
\* Bug = "month-by-number": the lookup reads the month *number* as a code (M<month>), as a greedy conversion would
KeyUsed(key) == IF Bug = "month-by-number" /\ "month" \in DOMAIN key
                THEN [k \in (DOMAIN key \ {"month"}) \cup {"mc"} |-> IF k = "mc" THEN MC(key.month, FALSE) ELSE key[k]]
                ELSE IF Bug = "year-offset" /\ "year" \in DOMAIN key THEN [key EXCEPT !.year = key.year + 1]
                ELSE key
ToyFind(cal, key) == LET S == {n \in 0..(Len(TableOf(cal)) - 1) : Matches(ToyFieldsOf(cal, n), KeyUsed(key))}
                     IN IF S = {} THEN -1 ELSE CHOOSE n \in S : TRUE
ToyStarts == {[f |-> ToyFieldsOf("toy", 0), hi |-> Len(ToyAll) - 1]}
ToyOthers == {"flat", "toy"}
ToyRebuildUnique == (cur # Nil /\ ~Free) =>
  \A p \in Projections : (p \in {"era-mc", "era-m"} => cur.era # <<>>) =>
     Cardinality({n \in 0..(Len(TableOf(cur.cal)) - 1) : Matches(ToyFieldsOf(cur.cal, n), Project(cur, p))}) = 1

(* ---------------- offset calendars: windows over the era boundaries ---------------- *)
W(cal, a, b) == [f |-> Def(cal, DFC(a)), hi |-> DFC(b)]
OffsetStarts == {
  W("gregory", Date(0, 12, 22), Date(1, 1, 10)), W("gregory", Date(-1, 12, 29), Date(0, 1, 3)), W("gregory", Date(0, 2, 27), Date(0, 3, 2)),
  W("gregory", Date(2024, 2, 27), Date(2024, 3, 2)), W("gregory", Date(1900, 2, 27), Date(1900, 3, 2)), W("gregory", Date(-100, 2, 27), Date(-100, 3, 2)),
  W("iso8601", Date(0, 12, 29), Date(1, 1, 3)), W("iso8601", Date(2024, 2, 27), Date(2024, 3, 2)),
  W("roc", Date(1911, 12, 22), Date(1912, 1, 10)), W("roc", Date(1912, 2, 27), Date(1912, 3, 2)), W("roc", Date(1910, 12, 30), Date(1911, 1, 2)),
  W("roc", Date(0, 12, 30), Date(1, 1, 2)), W("roc", Date(2024, 12, 30), Date(2025, 1, 2)),
  W("buddhist", Date(-543, 12, 22), Date(-542, 1, 10)), W("buddhist", Date(-544, 12, 30), Date(-543, 1, 2)), W("buddhist", Date(2024, 2, 27), Date(2024, 3, 2)),
  W("buddhist", Date(0, 12, 30), Date(1, 1, 2)), W("buddhist", Date(2023, 12, 30), Date(2024, 1, 2)),
  W("japanese", Date(2019, 4, 24), Date(2019, 5, 8)), W("japanese", Date(1989, 1, 1), Date(1989, 1, 15)),
  W("japanese", Date(1926, 12, 18), Date(1927, 1, 3)), W("japanese", Date(1912, 7, 23), Date(1912, 8, 6)),
  W("japanese", Date(1873, 1, 1), Date(1873, 1, 6)), W("japanese", Date(1911, 12, 30), Date(1912, 1, 2)),
  W("japanese", Date(2019, 12, 30), Date(2020, 1, 2)), W("japanese", Date(1988, 12, 30), Date(1989, 1, 2)), W("japanese", Date(2024, 2, 27), Date(2024, 3, 2)),
  W("japanext", Date(2019, 4, 28), Date(2019, 5, 3)), W("japanext", Date(1989, 1, 5), Date(1989, 1, 10)),
  W("japanext", Date(1926, 12, 23), Date(1926, 12, 27)), W("japanext", Date(1912, 7, 28), Date(1912, 8, 1)), W("japanext", Date(1873, 1, 1), Date(1873, 1, 3)) }

\* inverse of Def from the fields Rebuild may use
EraIsoYear(cal, era, ey) ==
  CASE cal = "gregory" -> IF era = "gregory" THEN ey ELSE 1 - ey
    [] cal = "roc" -> IF era = "roc" THEN ey + 1911 ELSE 1912 - ey
    [] cal = "buddhist" -> ey - 543
    [] OTHER -> ey + (JpEras[CHOOSE i \in 1..Len(JpEras) : JpEras[i].name = era]).y0
OffsetFind(cal, key) ==
  LET y == IF "year" \in DOMAIN key THEN key.year - YearOffset(cal) ELSE EraIsoYear(cal, key.era[1], key.ey[1])
      m == IF "month" \in DOMAIN key THEN key.month ELSE McNum(key.mc)
  IN DaysFromCivil(y, m, key.day)
OffsetOthers == {}

(* ---------------- case emission (spec -> impl) ---------------- *)
DayArgs(f) == [cal |-> f.cal, n |-> f.n, iso |-> IsoOf(f.n)]
Numeric(f) == [ey |-> f.ey, year |-> f.year, month |-> f.month, mc |-> f.mc, day |-> f.day, doy |-> f.doy,
               dim |-> f.dim, diy |-> f.diy, miy |-> f.miy, leap |-> f.leap]
RowOf(cal, e) == CHOOSE R \in EraRows(cal) : e \in R
SetToSeq(S) == CHOOSE q \in [1..Cardinality(S) -> S] : \A i, j \in 1..Cardinality(S) : i # j => q[i] # q[j]
RebuildArgs(f, yp, mp) ==
  LET base == [cal |-> f.cal, n |-> f.n, day |-> f.day]
      withY == IF yp = "year" THEN base @@ [year |-> f.year] ELSE base @@ [era |-> yp, ey |-> f.ey[1]]
      withM == IF mp = "mc" THEN withY @@ [mc |-> f.mc] ELSE IF mp = "m" THEN withY @@ [month |-> f.month] ELSE withY @@ [mc |-> f.mc, month |-> f.month]
  IN withM
RebuildCase(f, yp, mp) == LET a == RebuildArgs(f, yp, mp)
                          IN [op |-> "Cal.Rebuild", cls |-> RebuildCls(f, a), args |-> a, out |-> RebuildExpected(f)]
CasesOf(f) ==
  {[op |-> "Cal.Fields", cls |-> f.cal \o "/day/def", args |-> DayArgs(f), out |-> Ok(Numeric(f))]}
  \cup (IF f.era = <<>> THEN {} ELSE
          {[op |-> "Cal.EraIn", cls |-> f.cal \o "/day/def:era-name", args |-> DayArgs(f) @@ [names |-> SetToSeq(RowOf(f.cal, f.era[1]))], out |-> Ok(TRUE)]}
          \cup {RebuildCase(f, a, "mc") : a \in RowOf(f.cal, f.era[1])}
          \cup {RebuildCase(f, f.era[1], mp) : mp \in {"m", "m+mc"}})
  \cup {RebuildCase(f, "year", mp) : mp \in {"mc", "m", "m+mc"}}
  \cup {[op |-> "Cal.WithCalendar", cls |-> f.cal \o "/with-calendar", args |-> [from |-> f.cal, to |-> c, n |-> f.n, iso |-> IsoOf(f.n)],
         out |-> Ok([iso |-> IsoOf(f.n), id |-> c, cmp |-> 0])] : c \in {"gregory", "japanese", "hebrew", "iso8601", "chinese"} \ {f.cal}}
Emit == last.op \notin {"none", "day"} \/ \A c \in CasesOf(cur) : PrintT("CASE " \o ToJson(c))
=============================================================================
