//! Operations for C17: with / from_partial / new_with_overflow of PlainDate, PlainTime, PlainDateTime,
//! PlainYearMonth and the date/time part of ZonedDateTime partials (ISO calendar).
//!
//! A partial record is a JSON object holding only the supplied fields:
//! year, month, monthCode, day, hour, minute, second, millisecond, microsecond, nanosecond.
use crate::js::{self, big, int};
use crate::ops::{utc, FS};
use crate::proj::*;
use serde_json::{json, Value};
use std::str::FromStr;
use temporal_rs::options::*;
use temporal_rs::partial::*;
use temporal_rs::*;

fn o_u8(p: &Value, k: &str) -> Option<u8> { p.get(k).and_then(|v| v.as_i64()).map(|v| u8::try_from(v).unwrap_or_else(|_| panic!("{} not u8: {}", k, v))) }
fn o_u16(p: &Value, k: &str) -> Option<u16> { p.get(k).and_then(|v| v.as_i64()).map(|v| u16::try_from(v).unwrap_or_else(|_| panic!("{} not u16: {}", k, v))) }
fn o_i32(p: &Value, k: &str) -> Option<i32> { p.get(k).and_then(|v| v.as_i64()).map(|v| i32::try_from(v).unwrap_or_else(|_| panic!("{} not i32: {}", k, v))) }

/// the date fields of a partial record; a month code that is not even syntactically a month code is the caller's error
pub fn partial_date(p: &Value) -> TemporalResult<PartialDate> {
    let mc = match p.get("monthCode").and_then(|v| v.as_str()) { Some(s) => Some(MonthCode::from_str(s)?), None => None };
    Ok(PartialDate::new().with_year(o_i32(p, "year")).with_month(o_u8(p, "month")).with_month_code(mc).with_day(o_u8(p, "day")))
}
pub fn partial_time(p: &Value) -> PartialTime {
    PartialTime::new().with_hour(o_u8(p, "hour")).with_minute(o_u8(p, "minute")).with_second(o_u8(p, "second"))
        .with_millisecond(o_u16(p, "millisecond")).with_microsecond(o_u16(p, "microsecond")).with_nanosecond(o_u16(p, "nanosecond"))
}
pub fn partial_datetime(p: &Value) -> TemporalResult<PartialDateTime> {
    Ok(PartialDateTime::new().with_partial_date(partial_date(p)?).with_partial_time(partial_time(p)))
}
fn ovf_req(a: &Value) -> ArithmeticOverflow { arg_ovf(a).unwrap_or(ArithmeticOverflow::Constrain) }

/// year-month receiver {y, m[, rd]} (rd = explicit reference day)
pub fn arg_ym(v: &Value) -> TemporalResult<PlainYearMonth> {
    PlainYearMonth::new_with_overflow(js::i(v, "y") as i32, js::i(v, "m") as u8, v.get("rd").and_then(|x| x.as_i64()).map(|x| x as u8), iso(), ArithmeticOverflow::Reject)
}
/// the hidden reference day is only observable through the string with the calendar annotation forced
pub fn ym_ref_day(ym: &PlainYearMonth) -> i64 {
    let s = ym.to_ixdtf_string(DisplayCalendar::Always);
    let head = s.split('[').next().unwrap_or("");
    let parts: Vec<&str> = head.rsplitn(2, '-').collect();
    parts.first().and_then(|d| d.parse::<i64>().ok()).unwrap_or(-1)
}
pub fn p_ym(ym: &PlainYearMonth) -> Value {
    json!({"y": int(ym.year() as i64), "m": int(ym.month() as i64), "rd": int(ym_ref_day(ym))})
}

pub fn exec(op: &str, a: &Value) -> Option<Value> {
    Some(match op {
        "PlainDate.with" => run(|| { let mut p = partial_date(&a["p"])?;
            // a receiver in a calendar with eras: era and eraYear supplied next to the record's other fields
            match js::opt_s(a, "half") { Some("era") => { p = p.with_era(Some("ce".parse().expect("HARNESS: era code"))); } Some(_) => { p = p.with_era_year(Some(5)); } None => {} }
            if let Some(e) = js::opt_s(a, "era") { p = p.with_era(Some(e.parse().expect("HARNESS: era code"))).with_era_year(Some(js::i(a, "eraYear") as i32)); }
            arg_date(&a["recv"])?.with(p, arg_ovf(a)) }, p_date),
        "PlainDate.from_partial" => run(|| PlainDate::from_partial(partial_date(&a["p"])?, arg_ovf(a)), p_date),
        "PlainDate.new_with_overflow" => run(|| PlainDate::new_with_overflow(js::i(a, "y") as i32, js::i(a, "m") as u8, js::i(a, "d") as u8, iso(), ovf_req(a)), p_date),
        "PlainTime.with" => run(|| arg_time(&a["recv"])?.with(partial_time(&a["p"]), arg_ovf(a)), p_time),
        "PlainTime.from_partial" => run(|| PlainTime::from_partial(partial_time(&a["p"]), arg_ovf(a)), p_time),
        "PlainTime.new_with_overflow" => run(|| PlainTime::new_with_overflow(js::i(a, "h") as u8, js::i(a, "mi") as u8, js::i(a, "s") as u8,
            js::i(a, "ms") as u16, js::i(a, "us") as u16, js::i(a, "ns") as u16, ovf_req(a)), p_time),
        "PlainDateTime.with" => run(|| arg_datetime(&a["recv"])?.with(partial_datetime(&a["p"])?, arg_ovf(a)), p_datetime),
        "PlainDateTime.from_partial" => run(|| PlainDateTime::from_partial(partial_datetime(&a["p"])?, arg_ovf(a)), p_datetime),
        "PlainDateTime.new_with_overflow" => run(|| PlainDateTime::new_with_overflow(js::i(a, "y") as i32, js::i(a, "m") as u8, js::i(a, "d") as u8,
            js::i(a, "h") as u8, js::i(a, "mi") as u8, js::i(a, "s") as u8, js::i(a, "ms") as u16, js::i(a, "us") as u16, js::i(a, "ns") as u16, iso(), ovf_req(a)), p_datetime),
        "PlainYearMonth.with" => run(|| arg_ym(&a["recv"])?.with(partial_date(&a["p"])?, arg_ovf(a)), p_ym),
        "PlainYearMonth.from_partial" => run(|| PlainYearMonth::from_partial(partial_date(&a["p"])?, ovf_req(a)), p_ym),
        // date/time part of a ZonedDateTime partial in a fixed-offset zone: the local fields the zone reports back and the instant
        "ZonedDateTime.from_partial" => run(|| FS.with(|pr| {
            let tz = TimeZone::try_from_str(js::s(a, "tz"))?;
            let mut p = PartialZonedDateTime::new().with_date(partial_date(&a["p"])?).with_time(partial_time(&a["p"])).with_timezone(Some(tz));
            if let Some(m) = a.get("xoff").and_then(|x| x.as_i64()) {
                let text = format!("{}{:02}:{:02}", if m < 0 { '-' } else { '+' }, m.abs() / 60, m.abs() % 60);
                p = p.with_offset(Some(UtcOffset::from_str(&text)?));
            }
            let z = ZonedDateTime::from_partial_with_provider(p, arg_ovf(a), None, None, pr)?;
            let dt = z.to_plain_datetime_with_provider(pr)?;
            Ok((z, dt))
        }), |(z, dt)| { let mut v = p_datetime(dt); v["ens"] = big(z.epoch_nanoseconds().as_i128()); v }),
        _ => return None,
    })
}
