---------------------------- MODULE LimitsMachine ----------------------------
(***************************************************************************)
(* C02: every constructor / conversion / arithmetic / rounding / parsing    *)
(* entry point at the exact boundaries of Temporal's representable range.   *)
(* For each entry point the machine enumerates operands whose EXACT result  *)
(* lies at limit - 1u, limit, limit + 1u (u = ns, day, month) and far       *)
(* beyond; the expected outcome comes from the value-level specifications   *)
(* (exact BigInt results, so a wrapped or clamped value disagrees even if   *)
(* it lands back in range). Laws: the last representable value succeeds,    *)
(* the next one fails, every successful result is well-formed and in range. *)
(***************************************************************************)
EXTENDS DateTimeArith, Duration, Primitives

VARIABLES cell, last
vars == <<cell, last>>
None == [op |-> "none"]
One == FromInt(1)
DTJ(x) == [y |-> x.date.y, m |-> x.date.m, d |-> x.date.d, h |-> x.time.h, mi |-> x.time.mi, s |-> x.time.s, ms |-> x.time.ms, us |-> x.time.us, ns |-> x.time.ns]
OutDT(o) == IF o.kind = "ok" THEN Ok(DTJ(o.val)) ELSE o
DayD(k) == DateDur(0, 0, 0, k)
NsD(b) == Dur10(Zero, Zero, Zero, Zero, Zero, Zero, Zero, Zero, Zero, b)
TLast == Time(23, 59, 59, 999, 999, 999)
T1 == Time(0, 0, 0, 0, 0, 1)

\* ---- boundary day numbers and the deltas that cross them
EdgeDays == {MinDay - 2, MinDay - 1, MinDay, MinDay + 1, MaxDay - 1, MaxDay, MaxDay + 1, MaxDay + 2}
FarDays == {MinDay - 400, MaxDay + 400}
Deltas == {-2, -1, 0, 1, 2}
BigDeltas == {200000001, -200000001, 2147483647, -2147483647}

\* ---- cells: [kind, ...]; each kind is one entry point with its boundary operands
DateNewCells == {[k |-> "PlainDate.new", n |-> n] : n \in EdgeDays \cup FarDays}
DateAddCells == {[k |-> "PlainDate.add", n |-> n, dd |-> dd, sub |-> s] : n \in {MinDay, MinDay + 1, MaxDay - 1, MaxDay, 0}, dd \in Deltas \cup BigDeltas, s \in BOOLEAN}
DateAddMonthCells == {[k |-> "PlainDate.addMonths", date |-> dt, mo |-> mo] :
                        dt \in {Date(275760, 8, 13), Date(275760, 8, 14), Date(275760, 8, 31), Date(-271821, 5, 18), Date(-271821, 5, 19), Date(-271821, 5, 31)}, mo \in {-1, 1, 12, -12}}
\* weeks: 7 * weeks + days is where a 32-bit day count overflows first (|weeks| > 306 783 378); the exact span MinDay..MaxDay is 28 571 428 weeks + 5 days
DateAddWeekCells == {[k |-> "PlainDate.addWeeks", n |-> n, w |-> w, d |-> d] :
                       n \in {MinDay, MaxDay, 0, MaxDay - 3}, d \in {0, 5, 6},
                       w \in {28571428, 28571429, -28571428, -28571429, 306783378, 306783379, -306783379, 613566757, -613566757, 2147483647, -2147483647, 1, -1}}
DTNewCells == {[k |-> "PlainDateTime.new", n |-> n, t |-> t] : n \in EdgeDays, t \in {Midnight, T1, TLast}}
DTAddCells == {[k |-> "PlainDateTime.add", x |-> x, ns |-> b, sub |-> s] :
                 x \in {DT(Date(-271821, 4, 19), T1), DT(Date(-271821, 4, 19), Time(0, 0, 0, 0, 0, 2)), DT(Date(275760, 9, 13), TLast), DT(Date(275760, 9, 13), Time(23, 59, 59, 999, 999, 998))},
                 b \in {One, Neg(One), FromInt(2), FromInt(-2), Zero, DayNsBig, Neg(DayNsBig)}, s \in BOOLEAN}
DTRoundCells == {[k |-> "PlainDateTime.round", x |-> x, u |-> u, mode |-> m] :
                   x \in {DT(Date(275760, 9, 13), TLast), DT(Date(275760, 9, 13), Time(12, 0, 0, 0, 0, 0)), DT(Date(275760, 9, 12), TLast), DT(Date(-271821, 4, 19), T1), DT(Date(-271821, 4, 19), Time(12, 0, 0, 0, 0, 0)), DT(Date(-271821, 4, 20), T1)},
                   u \in {"day", "hour", "minute", "second", "millisecond", "microsecond"}, m \in {"ceil", "floor", "halfExpand", "trunc"}}
DateToDTCells == {[k |-> "PlainDate.toPlainDateTime", n |-> n, t |-> t] : n \in {MinDay, MinDay + 1, MaxDay}, t \in {Midnight, T1, TLast}}
DateConvCells == {[k |-> kk, n |-> n, t |-> t] : kk \in {"PlainDateTime.fromDateAndTime", "PlainDateTime.withTime"}, n \in {MinDay, MinDay + 1, MaxDay}, t \in {Midnight, T1, TLast}}
                 \cup {[k |-> "PlainDateTime.fromPlainDate", n |-> n, t |-> Midnight] : n \in {MinDay, MinDay + 1, MaxDay, 0}}
StrCells == {[k |-> "PlainDate.fromStr", n |-> n] : n \in EdgeDays}
            \cup {[k |-> kk, n |-> n, t |-> t] : kk \in {"PlainDateTime.fromStr", "Instant.fromStr"}, n \in {MinDay - 1, MinDay, MinDay + 1, MaxDay, MaxDay + 1}, t \in {Midnight, T1, TLast}}
\* the 128-bit argument's own extremes
TwoTo127 == MulSmall(M16(M16(M16(M16(M16(M16(M16(FromInt(1)))))))), 32768)
I128Max == Sub(TwoTo127, FromInt(1))
I128Ends == {I128Max, Sub(I128Max, FromInt(1)), Neg(TwoTo127), Neg(I128Max)}
ZdtCells == {[k |-> "ZonedDateTime.new", ns |-> Add(b, FromInt(d))] : b \in {MaxInstantBig, Neg(MaxInstantBig)}, d \in Deltas} \cup {[k |-> "ZonedDateTime.new", ns |-> n] : n \in I128Ends}
DateEpochCells == {[k |-> "PlainDate.epochNsUtc", n |-> n] : n \in {MinDay, MinDay + 1, MaxDay, 0}}
\* constrain clamps month and day, never the year
DateConstrainCells == {[k |-> "PlainDate.newConstrain", d |-> d] : d \in {Date(275761, 1, 1), Date(275761, 9, 13), Date(275760, 9, 14), Date(275760, 13, 40), Date(-271822, 12, 31), Date(-271822, 4, 19),
                                                                          Date(-271821, 4, 18), Date(-271821, 0, 0), Date(275760, 9, 13), Date(-271821, 4, 19)}}
\* a wall-clock date-time in a fixed-offset zone: its INSTANT (wall - offset) decides, not its UTC reading
T5 == Time(5, 0, 0, 0, 0, 0)     T19 == Time(19, 0, 0, 0, 0, 0)
DTToZonedCells == {[k |-> "PlainDateTime.toZonedOffset", n |-> c[1], t |-> c[2], off |-> off] :
                     c \in {<<MaxDay, Midnight>>, <<MaxDay, T5>>, <<MaxDay, Time(5, 0, 0, 0, 0, 1)>>, <<MaxDay, Time(4, 59, 59, 999, 999, 999)>>, <<MaxDay - 1, T19>>, <<MaxDay - 1, Time(19, 0, 0, 0, 0, 1)>>,
                             <<MinDay, T19>>, <<MinDay, Time(18, 59, 59, 999, 999, 999)>>, <<MinDay + 1, Midnight>>, <<MinDay + 1, T5>>, <<MinDay + 1, Time(4, 59, 59, 999, 999, 999)>>, <<0, Midnight>>},
                     off \in {300, -300, 0}}
\* the same wall-clock readings as zoned strings with their offset written out, under every offset option (the offset is the
\* zone's own): the instant must lie within the limits, and under prefer / reject also the wall date within 10^8 days of the epoch
ZStrCells == {[k |-> "ZonedDateTime.fromStrOffset", n |-> c.n, t |-> c.t, off |-> c.off, oo |-> oo] : c \in DTToZonedCells, oo \in {"use", "reject", "prefer", "ignore"}}
\* date-only zoned strings in fixed-offset zones (start of day = midnight minus the offset): the instant must lie within the limits
ZDateOnlyCells == {[k |-> "ZonedDateTime.fromDateOnlyStr", n |-> n, off |-> off] : n \in {MinDay, MinDay + 1, MinDay + 2, MaxDay - 1, MaxDay, 0}, off \in {60, -60, 0, 840, -720}}
\* PlainDate.toZonedDateTime({timeZone: UTC, plainTime}): the combined date-time must be within the date-time limits (step 6.c) and its
\* instant within the instant limits; tt = "none" is the start of the day
DateToZonedCells == {[k |-> "PlainDate.toZonedUtc", n |-> n, tt |-> tt] : n \in {MinDay, MinDay + 1, MaxDay - 1, MaxDay, 0}, tt \in {"none", "midnight", "t1", "last"}}
InstNewCells == {[k |-> "Instant.new", ns |-> Add(b, FromInt(d))] : b \in {MaxInstantBig, Neg(MaxInstantBig)}, d \in Deltas} \cup {[k |-> "Instant.new", ns |-> MulSmall(MaxInstantBig, 2)]} \cup {[k |-> "Instant.new", ns |-> n] : n \in I128Ends}
InstAddCells == {[k |-> "Instant.add", i |-> Add(b, FromInt(d0)), ns |-> FromInt(d), sub |-> s, via |-> via] : b \in {MaxInstantBig, Neg(MaxInstantBig)}, d0 \in {-1, 0, 1} , d \in Deltas, s \in BOOLEAN, via \in {"dur", "td"}} 
InstAddCellsOK == {c \in InstAddCells : InInstantRange(c.i)}
\* the argument is a 64-bit integer: its own extremes (|i64::MIN| is not representable - a sign trick overflows there) are inputs too
I64Max == Add(Add(K9(K9(FromInt(9))), K9(FromInt(223372036))), FromInt(854775807))
I64Min == Neg(Add(I64Max, FromInt(1)))
InstMsCells == {[k |-> "Instant.fromEpochMs", ms |-> Add(b, FromInt(d))] : b \in {K9(FromInt(8640000)), Neg(K9(FromInt(8640000)))}, d \in Deltas}
               \cup {[k |-> "Instant.fromEpochMs", ms |-> m] : m \in {I64Max, Sub(I64Max, FromInt(1)), I64Min, Add(I64Min, FromInt(1))}}
InstRoundCells == {[k |-> "Instant.round", i |-> Add(b, FromInt(d0)), u |-> u, inc |-> inc, mode |-> m] :
                     b \in {MaxInstantBig, Neg(MaxInstantBig)}, d0 \in {-1, 0, 1}, u \in {"hour", "second", "nanosecond"}, inc \in {1, 2, 24}, m \in {"ceil", "floor", "expand", "trunc", "halfExpand"}}
InstRoundCellsOK == {c \in InstRoundCells : InInstantRange(c.i) /\ (c.inc = 24 => c.u = "hour") /\ (c.inc = 2 => c.u # "hour" \/ TRUE)}
DurAddCells == {[k |-> "Duration.add", a |-> a, b |-> b] :
                  a \in {Dur10(Zero, Zero, Zero, Zero, Zero, Zero, [s |-> 1, l |-> <<991, 5474, 1992, 9007>>], Zero, Zero, Zero), Dur10(Zero, Zero, Zero, Zero, Zero, Zero, [s |-> -1, l |-> <<991, 5474, 1992, 9007>>], Zero, Zero, Zero)},
                  b \in {Dur10(Zero, Zero, Zero, Zero, Zero, Zero, One, Zero, Zero, Zero), Dur10(Zero, Zero, Zero, Zero, Zero, Zero, Neg(One), Zero, Zero, Zero),
                         Dur10(Zero, Zero, Zero, Zero, Zero, Zero, Zero, FromInt(999), Zero, Zero), Dur10(Zero, Zero, Zero, Zero, Zero, Zero, Zero, FromInt(1000), Zero, Zero),
                         Dur10(Zero, Zero, Zero, Zero, Zero, Zero, Zero, FromInt(-999), Zero, Zero), Dur10(Zero, Zero, Zero, Zero, Zero, Zero, Zero, FromInt(-1000), Zero, Zero)}}
\* numeric primitives: the three sources of EpochNanoseconds around both limits, fractions, non-numbers; FiniteF64 read as integers
TwoTo20 == FromInt(1048576)      \* the spacing of doubles around 8.64e21
EpochFromCells ==
  {[k |-> "Prim.epochNs", src |-> "i128", v |-> Add(b, FromInt(d)), frac |-> FALSE, special |-> ""] : b \in {MaxInstantBig, Neg(MaxInstantBig)}, d \in Deltas}
  \cup {[k |-> "Prim.epochNs", src |-> "u128", v |-> v, frac |-> FALSE, special |-> ""] : v \in {Zero, FromInt(1), MaxInstantBig, Add(MaxInstantBig, FromInt(1)), Sub(MaxInstantBig, FromInt(1)), MulSmall(MaxInstantBig, 2), I128Max}}
  \cup {[k |-> "Prim.epochNs", src |-> "u128", v |-> Zero, frac |-> FALSE, special |-> "max"]}      \* u128::MAX
  \cup {[k |-> "Prim.epochNs", src |-> "f64", v |-> v, frac |-> FALSE, special |-> ""] :
           v \in {Zero, MaxInstantBig, Neg(MaxInstantBig), Add(MaxInstantBig, TwoTo20), Sub(MaxInstantBig, TwoTo20), Neg(Add(MaxInstantBig, TwoTo20)), Neg(Sub(MaxInstantBig, TwoTo20)), MulSmall(P2to63, 4), Neg(MulSmall(P2to63, 4))}}
  \cup {[k |-> "Prim.epochNs", src |-> "f64", v |-> FromInt(n), frac |-> TRUE, special |-> ""] : n \in {0, 1, -1, 1000000}}
  \cup {[k |-> "Prim.epochNs", src |-> "f64", v |-> Zero, frac |-> FALSE, special |-> sp] : sp \in {"NaN", "inf", "-inf"}}
IntTys == {"u8", "u32", "i32", "i64"}
FFVals(ty) == {Zero, FromInt(1), FromInt(-1), FromInt(255), FromInt(256), TyMax(ty), TyMin(ty), MulSmall(P2to63, 4), Neg(MulSmall(P2to63, 4))}
\* (values next to a type's limit are used only where the neighbouring integer is a double: below 2^53)
PrimKinds == {"Prim.truncated", "Prim.integral", "Prim.positive"}
FFCells == UNION {{[k |-> kk, ty |-> ty, v |-> v, frac |-> FALSE] : kk \in PrimKinds, v \in {x \in FFVals(ty) : ty # "i64" \/ x # TyMax(ty)}} : ty \in IntTys}
           \cup {[k |-> kk, ty |-> ty, v |-> FromInt(n), frac |-> TRUE] : kk \in PrimKinds, ty \in IntTys, n \in {0, 1, -1, 254, 255}}
\* Default::default() of the date types is a date (the epoch day), not the all-zero record
DefaultCells == {[k |-> "Default.date", ty |-> ty] : ty \in {"PlainDate", "PlainDateTime", "PlainYearMonth", "PlainMonthDay"}}
Cells == EpochFromCells \cup FFCells \cup DefaultCells \cup DateNewCells \cup DateAddCells \cup DateAddMonthCells \cup DateAddWeekCells \cup DTNewCells \cup DTAddCells \cup DTRoundCells \cup DateToDTCells \cup DateEpochCells \cup DateToZonedCells \cup DateConstrainCells \cup DTToZonedCells
         \cup DateConvCells \cup StrCells \cup ZStrCells \cup ZDateOnlyCells \cup ZdtCells \cup InstNewCells \cup InstAddCellsOK \cup InstMsCells \cup InstRoundCellsOK \cup DurAddCells

\* the call (op, args) and its expected outcome
Call(c) ==
  CASE c.k = "PlainDate.new" -> [op |-> "PlainDate.new", args |-> [d |-> CivilFromDays(c.n)], out |-> IF InDateRange(c.n) THEN Ok(CivilFromDays(c.n)) ELSE ErrRange]
    [] c.k = "PlainDate.add" -> [op |-> IF c.sub THEN "PlainDate.subtract" ELSE "PlainDate.add",
                                 args |-> [recv |-> CivilFromDays(c.n), dur |-> DayD(IF c.sub THEN -c.dd ELSE c.dd)],
                                 out |-> AddDate(CivilFromDays(c.n), DayD(c.dd), "constrain")]
    [] c.k = "PlainDate.addWeeks" -> LET dd == IF c.w < 0 THEN -c.d ELSE c.d       \* same sign as the weeks
                                      IN [op |-> "PlainDate.add", args |-> [recv |-> CivilFromDays(c.n), dur |-> DateDur(0, 0, c.w, dd)],
                                          out |-> AddDate(CivilFromDays(c.n), DateDur(0, 0, c.w, dd), "constrain")]
    [] c.k = "PlainDate.addMonths" -> [op |-> "PlainDate.add", args |-> [recv |-> c.date, dur |-> DateDur(0, c.mo, 0, 0)], out |-> AddDate(c.date, DateDur(0, c.mo, 0, 0), "constrain")]
    [] c.k = "PlainDateTime.new" -> [op |-> "PlainDateTime.new", args |-> [dt |-> DTJ(DT(CivilFromDays(c.n), c.t))], out |-> OutDT(DTNew(DT(CivilFromDays(c.n), c.t)))]
    [] c.k = "PlainDateTime.add" -> [op |-> IF c.sub THEN "PlainDateTime.subtract" ELSE "PlainDateTime.add",
                                     args |-> [recv |-> DTJ(c.x), dur |-> NsD(IF c.sub THEN Neg(c.ns) ELSE c.ns)], out |-> OutDT(AddDT(c.x, NsD(c.ns), "constrain"))]
    [] c.k = "PlainDateTime.round" -> [op |-> "PlainDateTime.round", args |-> [recv |-> DTJ(c.x), st |-> [smallest |-> c.u, inc |-> 1, mode |-> c.mode]], out |-> OutDT(RoundDT(c.x, c.u, 1, c.mode))]
    [] c.k = "PlainDate.toPlainDateTime" -> [op |-> "PlainDate.toPlainDateTime", args |-> [recv |-> CivilFromDays(c.n), time |-> c.t], out |-> OutDT(DTNew(DT(CivilFromDays(c.n), c.t)))]
    [] c.k \in {"PlainDateTime.fromDateAndTime", "PlainDateTime.fromPlainDate", "PlainDateTime.withTime"} -> [op |-> c.k, args |-> [recv |-> CivilFromDays(c.n), time |-> c.t], out |-> OutDT(DTNew(DT(CivilFromDays(c.n), c.t)))]
    [] c.k = "PlainDate.fromStr" -> [op |-> c.k, args |-> [d |-> CivilFromDays(c.n)], out |-> IF InDateRange(c.n) THEN Ok(CivilFromDays(c.n)) ELSE ErrRange]
    [] c.k = "PlainDateTime.fromStr" -> [op |-> c.k, args |-> [dt |-> DTJ(DT(CivilFromDays(c.n), c.t))], out |-> OutDT(DTNew(DT(CivilFromDays(c.n), c.t)))]
    [] c.k = "Instant.fromStr" -> [op |-> c.k, args |-> [dt |-> DTJ(DT(CivilFromDays(c.n), c.t))], out |-> InstantNew(Add(Mul(DayNsBig, FromInt(c.n)), TimeNsOf(c.t)))]
    [] c.k = "ZonedDateTime.new" -> [op |-> c.k, args |-> [ns |-> c.ns], out |-> InstantNew(c.ns)]
    [] c.k = "PlainDate.newConstrain" ->
         [op |-> "PlainDate.newConstrain", args |-> [d |-> c.d],
          out |-> IF c.d.y < -271821 \/ c.d.y > 275760 THEN ErrRange
                  ELSE LET m == IF c.d.m < 1 THEN 1 ELSE IF c.d.m > 12 THEN 12 ELSE c.d.m
                           dd == IF c.d.d < 1 THEN 1 ELSE IF c.d.d > DIM(c.d.y, m) THEN DIM(c.d.y, m) ELSE c.d.d
                       IN IF InDateRange(DFC(Date(c.d.y, m, dd))) THEN Ok(Date(c.d.y, m, dd)) ELSE ErrRange]
    [] c.k = "ZonedDateTime.fromDateOnlyStr" ->
         LET ns == Sub(Mul(DayNsBig, FromInt(c.n)), K9(FromInt(c.off * 60)))
         IN [op |-> c.k, args |-> [d |-> CivilFromDays(c.n), off |-> c.off], out |-> IF AbsI(c.n) > 100000000 \/ ~InInstantRange(ns) THEN ErrRange ELSE Ok(ns)]
    [] c.k = "ZonedDateTime.fromStrOffset" ->
         LET x == DT(CivilFromDays(c.n), c.t)
             ns == Sub(Add(Mul(DayNsBig, FromInt(c.n)), TimeNsOf(c.t)), K9(FromInt(c.off * 60)))
         IN [op |-> c.k, args |-> [dt |-> DTJ(x), off |-> c.off, offopt |-> c.oo],
             \* prefer / reject look at the zone's candidates for the WALL date (CheckISODaysRange on it: 10^8 days either side of the
             \* epoch); use / ignore only balance the reading to UTC and check that date, which the instant limits already imply
             out |-> IF (c.oo \in {"prefer", "reject"} /\ AbsI(c.n) > 100000000) \/ ~InInstantRange(ns) THEN ErrRange ELSE Ok(ns)]
    [] c.k = "PlainDateTime.toZonedOffset" ->
         LET x == DT(CivilFromDays(c.n), c.t)
             ns == Sub(Add(Mul(DayNsBig, FromInt(c.n)), TimeNsOf(c.t)), K9(FromInt(c.off * 60)))
         IN [op |-> "PlainDateTime.toZonedOffset", args |-> [dt |-> DTJ(x), off |-> c.off],
             out |-> IF DTNew(x).kind # "ok" \/ ~InInstantRange(ns) THEN ErrRange ELSE Ok(ns)]
    [] c.k = "PlainDate.toZonedUtc" ->
         LET t == CASE c.tt = "t1" -> T1 [] c.tt = "last" -> TLast [] OTHER -> Midnight
             ns == Add(Mul(DayNsBig, FromInt(c.n)), TimeNsOf(t))
         IN [op |-> "PlainDate.toZonedUtc", args |-> IF c.tt = "none" THEN [recv |-> CivilFromDays(c.n)] ELSE [recv |-> CivilFromDays(c.n), time |-> t],
             out |-> IF (c.tt # "none" /\ DTNew(DT(CivilFromDays(c.n), t)).kind # "ok") \/ ~InInstantRange(ns) THEN ErrRange ELSE Ok(ns)]
    [] c.k = "PlainDate.epochNsUtc" -> [op |-> "PlainDate.epochNsUtc", args |-> [recv |-> CivilFromDays(c.n)],
                                        out |-> IF c.n > MinDay THEN Ok(Mul(DayNsBig, FromInt(c.n))) ELSE ErrRange]
    \* (a default value is a valid date: the epoch day - and for a month-day 01-01 with the reference year 1972 every ISO month-day carries, C18)
    [] c.k = "Default.date" -> [op |-> c.k, args |-> [ty |-> c.ty], out |-> Ok([y |-> IF c.ty = "PlainMonthDay" THEN 1972 ELSE 1970, m |-> 1, d |-> 1, dim |-> 31])]
    [] c.k = "Prim.epochNs" -> [op |-> c.k, args |-> [src |-> c.src, v |-> c.v, frac |-> c.frac, special |-> c.special], out |-> EpochNsFrom(c.src, c.v, c.frac, c.special)]
    [] c.k \in {"Prim.truncated", "Prim.integral", "Prim.positive"} ->
         [op |-> c.k, args |-> [ty |-> c.ty, v |-> c.v, frac |-> c.frac],
          out |-> CASE c.k = "Prim.truncated" -> Truncated(c.ty, c.v) [] c.k = "Prim.integral" -> Integral(c.ty, c.v, c.frac) [] OTHER -> Positive(c.ty, c.v)]
    [] c.k = "Instant.new" -> [op |-> "Instant.new", args |-> [ns |-> c.ns], out |-> InstantNew(c.ns)]
    [] c.k = "Instant.add" -> [op |-> IF c.sub THEN "Instant.subtract" ELSE "Instant.add", args |-> [recv |-> c.i, dur |-> NsD(IF c.sub THEN Neg(c.ns) ELSE c.ns), via |-> c.via], out |-> InstantAdd(c.i, NsD(c.ns))]
    [] c.k = "Instant.fromEpochMs" -> [op |-> "Instant.fromEpochMs", args |-> [ms |-> c.ms], out |-> FromEpochMs(c.ms)]
    [] c.k = "Instant.round" -> [op |-> "Instant.round", args |-> [recv |-> c.i, st |-> [smallest |-> c.u, inc |-> c.inc, mode |-> c.mode]], out |-> InstantRound(c.i, c.u, c.inc, c.mode)]
    [] c.k = "Duration.add" -> [op |-> "Duration.add", args |-> [recv |-> c.a, other |-> c.b], out |-> DurAdd(c.a, c.b)]

Init == cell \in Cells /\ last = None
Step == last = None /\ last' = Call(cell) /\ UNCHANGED cell
Next == Step
Spec == Init /\ [][Next]_vars

Done == last.op # "none"
\* every successful result is well-formed and inside the range
WellFormed == (Done /\ last.out.kind = "ok") =>
  CASE last.op \in {"PlainDate.new", "PlainDate.add", "PlainDate.subtract"} -> ValidDate(last.out.val) /\ InDateRange(DFC(last.out.val))
    [] last.op \in {"Instant.new", "Instant.add", "Instant.subtract", "Instant.fromEpochMs", "Instant.round", "PlainDate.epochNsUtc"} -> IsBig(last.out.val) /\ InInstantRange(last.out.val)
    [] last.op = "Duration.add" -> ValidDur(last.out.val)
    [] last.op = "Prim.epochNs" -> InInstantRange(last.out.val)
    [] last.op \in {"Prim.truncated", "Prim.integral", "Prim.positive"} -> Le(TyMin(cell.ty), last.out.val) /\ Le(last.out.val, TyMax(cell.ty))
    [] OTHER -> TRUE
\* exact boundary: the last representable value succeeds, the next one fails
Boundary ==
  /\ (cell.k = "PlainDate.new" => (last.op = "none" \/ (last.out.kind = "ok") = (cell.n >= MinDay /\ cell.n <= MaxDay)))
  /\ (cell.k = "Instant.new" /\ Done => (last.out.kind = "ok") = Le(Abs(cell.ns), MaxInstantBig))
  /\ (cell.k = "PlainDateTime.new" /\ Done => (last.out.kind = "ok") = ((cell.n > MinDay \/ (cell.n = MinDay /\ cell.t # Midnight)) /\ cell.n <= MaxDay))
  /\ (cell.k = "PlainDate.add" /\ Done /\ AbsI(cell.dd) < 1000000000 => (last.out.kind = "ok") = (cell.n + cell.dd >= MinDay /\ cell.n + cell.dd <= MaxDay))
  /\ (cell.k = "PlainDate.add" /\ Done /\ AbsI(cell.dd) >= 1000000000 => last.out = ErrRange)
  \* weeks: exactly those sums 7w + d that stay inside the range succeed (|w| < 3e7 keeps 7w inside TLC's integers); anything larger fails
  /\ (cell.k = "PlainDate.addWeeks" /\ Done /\ AbsI(cell.w) < 30000000 =>
        LET dd == IF cell.w < 0 THEN -cell.d ELSE cell.d IN (last.out.kind = "ok") = (cell.n + 7 * cell.w + dd >= MinDay /\ cell.n + 7 * cell.w + dd <= MaxDay))
  /\ (cell.k = "PlainDate.addWeeks" /\ Done /\ AbsI(cell.w) >= 30000000 => last.out = ErrRange)
=============================================================================
