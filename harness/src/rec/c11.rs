//! C11 sessions: a random value of one of the eight types (full-size domains, biased to range ends and digit-count
//! boundaries) is printed with random display options (event Fmt.<Type>: abstract value + options -> characters),
//! the text is parsed back (Parse.<Type>, chained) and the parsed value printed again with the same options.
//! Interleaved: Display, option-enum names, year padding, identifiers, month codes, calendars.
use super::Tracer;
use crate::gen::*;
use crate::js::big;
use crate::ops;
use crate::ops_parse::chars_tok;
use crate::rng::Rng;
use serde_json::{json, Value};

const CALS: [&str; 6] = ["iso8601", "iso8601", "iso8601", "gregory", "hebrew", "japanese"];
// (the last three: names with a sign or a digit in them - Etc/GMT+5 is five hours WEST of Greenwich)
const NAMED: [&str; 9] = ["UTC", "America/New_York", "Europe/London", "Asia/Kolkata", "Australia/Lord_Howe", "Africa/Monrovia", "Etc/GMT+5", "Etc/GMT-14", "Etc/GMT+0"];
const ENUMS: [(&str, &[&str]); 9] = [
    ("Unit", &["Auto", "Nanosecond", "Microsecond", "Millisecond", "Second", "Minute", "Hour", "Day", "Week", "Month", "Year"]),
    ("RoundingMode", &["Ceil", "Floor", "Expand", "Trunc", "HalfCeil", "HalfFloor", "HalfExpand", "HalfTrunc", "HalfEven"]),
    ("ArithmeticOverflow", &["Constrain", "Reject"]), ("DurationOverflow", &["Constrain", "Balance"]),
    ("Disambiguation", &["Compatible", "Earlier", "Later", "Reject"]), ("OffsetDisambiguation", &["Use", "Prefer", "Ignore", "Reject"]),
    ("DisplayCalendar", &["Auto", "Always", "Never", "Critical"]), ("DisplayOffset", &["Auto", "Never"]), ("DisplayTimeZone", &["Auto", "Never", "Critical"]),
];
const NAMES: [&str; 24] = ["auto", "nanosecond", "millisecond", "milliseconds", "millsecond", "hours", "year", "ceil", "halfEven", "halfeven", "HalfEven", "constrain",
    "balance", "reject", "compatible", "earlier", "use", "prefer", "always", "never", "critical", "", "auto ", "weeks"];

fn sub_ns(r: &mut Rng) -> i64 {
    match r.range(0, 7) { 0 | 1 => 0, 2 => 1, 3 => 999_999_999, 4 => r.range(0, 999) * 1_000_000, 5 => r.range(0, 999_999) * 1000, _ => r.range(0, 999_999_999) }
}
fn time6(r: &mut Rng) -> Value {
    let x = sub_ns(r);
    let (h, mi, s) = if r.chance(1, 5) { (23, 59, 59) } else if r.chance(1, 5) { (0, 0, 0) } else { (r.range(0, 23), r.range(0, 59), r.range(0, 59)) };
    json!({"h": h, "mi": mi, "s": s, "ms": x / 1_000_000, "us": (x / 1000) % 1000, "ns": x % 1000})
}
fn year_edge_day(r: &mut Rng) -> i64 {
    // days around the four-digit / six-digit year boundaries and both range ends
    match r.range(0, 5) {
        0 => days_from_civil(9999, 12, 31) + r.range(-400, 400),
        1 => days_from_civil(0, 1, 1) + r.range(-400, 400),
        2 => days_from_civil(1000, 1, 1) + r.range(-3, 3),
        _ => any_day(r),
    }
}
fn prec_opts(r: &mut Rng, a: &mut Value, minute_ok: bool) {
    match r.range(0, 5) {
        0 | 1 => {}
        2 | 3 => a["prec"] = json!(r.range(0, 9)),
        _ => { let us = ["second", "millisecond", "microsecond", "nanosecond", "minute"]; a["su"] = json!(us[r.range(0, if minute_ok { 4 } else { 3 }) as usize]); }
    }
}
fn cal_opt(r: &mut Rng, a: &mut Value) { if r.chance(1, 2) { a["cd"] = json!(*r.pick(&["auto", "always", "never", "critical"])); } }
fn merge(mut a: Value, b: Value) -> Value { for (k, v) in b.as_object().unwrap() { a[k] = v.clone(); } a }

fn any_instant(r: &mut Rng) -> i128 {
    let lim: i128 = 8_640_000_000_000_000_000_000;
    match r.range(0, 7) {
        0 => -lim + r.range(0, 1_000_000) as i128,
        1 => lim - r.range(0, 1_000_000) as i128,
        2 => r.range(-2_000_000_000, 2_000_000_000) as i128,
        3 => year_edge_day(r) as i128 * 86_400_000_000_000 + r.range(0, 86_399) as i128 * 1_000_000_000 + sub_ns(r) as i128,
        4 => -(r.range(0, 4_000_000_000_000_000_000) as i128),
        _ => r.range128(-lim, lim),
    }.clamp(-lim, lim)
}
fn offset_id(r: &mut Rng) -> String {
    let (h, m) = match r.range(0, 4) { 0 => (0, 0), 1 => (5, 30), 2 => (12, 45), 3 => (r.range(0, 23), 0), _ => (r.range(0, 23), r.range(0, 59)) };
    format!("{}{:02}:{:02}", if r.chance(1, 2) { '+' } else { '-' }, h, m)
}
fn any_duration(r: &mut Rng) -> Value {
    let sg: i128 = if r.chance(1, 3) { -1 } else { 1 };
    let mut f = [0i128; 10];
    let shape = r.range(0, 7);
    for (i, x) in f.iter_mut().enumerate() {
        let on = match shape { 0 => false, 1 => i >= 7, 2 => i == 4 || i >= 7, 3 => i < 4, _ => r.chance(1, 2) };
        if on { *x = match r.range(0, 5) { 0 => 1, 1 => r.range(0, 1000) as i128, 2 => r.range(0, 100_000) as i128, 3 => 999, _ => r.range(0, 3_000_000) as i128 }; }
    }
    if r.chance(1, 12) { f[r.range(3, 9) as usize] = r.range(0, 80_000_000_000) as i128; }
    if r.chance(1, 25) { f[6] = r.range(9_007_199_254_000_000, 9_007_199_254_740_991) as i128; f[7] = 0; f[8] = 0; f[9] = 0; f[3] = 0; f[4] = 0; f[5] = 0; }
    dur10(sg * f[0], sg * f[1], sg * f[2], sg * f[3], sg * f[4], sg * f[5], sg * f[6], sg * f[7], sg * f[8], sg * f[9])
}

/// print -> parse (chained) -> print again
fn cycle(t: &mut Tracer, ty: &str, args: Value, reparse_shape_ok: bool) {
    let op = format!("Fmt.{}", ty);
    let out = t.call(&op, args.clone());
    if out["kind"] != "ok" { return; }
    let p = t.call(&format!("Parse.{}", ty), json!({"chars": out["val"], "chain": true}));
    if p["kind"] == "ok" && reparse_shape_ok {
        let mut again = args;
        again["v"] = p["val"].clone();
        again["again"] = json!(true);
        t.call(&op, again);
    }
}

pub fn drive(t: &mut Tracer, r: &mut Rng, n: usize) {
    while t.n < n {
        match r.range(0, 11) {
            0 => {
                let (y, m, d) = civil(year_edge_day(r));
                let mut a = json!({"v": {"y": y, "m": m, "d": d, "cal": *r.pick(&CALS)}});
                if r.chance(1, 6) { a["via"] = json!("display"); } else { cal_opt(r, &mut a); }
                cycle(t, "PlainDate", a, true);
            }
            1 => {
                let (y, m, d) = civil(year_edge_day(r));
                let mut a = json!({"v": merge(json!({"y": y, "m": m, "d": d, "cal": *r.pick(&CALS)}), time6(r))});
                if r.chance(1, 6) { a["via"] = json!("display"); } else { cal_opt(r, &mut a); prec_opts(r, &mut a, true); }
                cycle(t, "PlainDateTime", a, true);
            }
            2 => { let mut a = json!({"v": time6(r)}); prec_opts(r, &mut a, true); cycle(t, "PlainTime", a, true); }
            3 => {
                let (y, m, _) = civil(year_edge_day(r).clamp(MIN_DAY + 20, MAX_DAY));
                let iso = r.chance(5, 6);
                let mut a = json!({"v": {"y": y, "m": m, "cal": if iso { "iso8601" } else { "gregory" }}});
                if !iso { a["v"]["rd"] = json!(1); }
                if r.chance(1, 6) { a["via"] = json!("display"); } else { cal_opt(r, &mut a); }
                cycle(t, "PlainYearMonth", a, iso);
                if r.chance(1, 3) { t.call("Fmt.YearPad", json!({"y": y, "m": m})); }
            }
            4 => {
                let m = r.range(1, 12);
                let d = r.range(1, [31, 29, 31, 30, 31, 30, 31, 31, 30, 31, 30, 31][m as usize - 1]);
                let iso = r.chance(5, 6);
                let mut a = json!({"v": {"m": m, "d": d, "cal": if iso { "iso8601" } else { "gregory" }}});
                if !iso { a["v"]["ry"] = json!(1972); }
                if r.chance(1, 6) { a["via"] = json!("display"); } else { cal_opt(r, &mut a); }
                cycle(t, "PlainMonthDay", a, iso);
            }
            5 => {
                let mut a = json!({"v": big(any_instant(r))});
                prec_opts(r, &mut a, true);
                if r.chance(1, 3) { a["tz"] = chars_tok(&offset_id(r)); }
                cycle(t, "Instant", a, true);
            }
            6 | 7 => {
                let mut a = json!({"v": any_duration(r)});
                if r.chance(1, 6) { a["via"] = json!("display"); } else { prec_opts(r, &mut a, false); }
                cycle(t, "Duration", a, true);
            }
            8 => {
                // fixed-offset zones (no provider data involved)
                let mut a = json!({"v": {"ns": big(any_instant(r)), "tz": chars_tok(&offset_id(r)), "cal": *r.pick(&CALS)}});
                if r.chance(1, 8) { a["via"] = json!("display"); } else {
                    cal_opt(r, &mut a); prec_opts(r, &mut a, true);
                    if r.chance(1, 3) { a["od"] = json!("never"); }
                    if r.chance(1, 3) { a["zd"] = json!(*r.pick(&["never", "critical", "auto"])); }
                }
                cycle(t, "ZonedDateTime", a, true);
            }
            9 => {
                // named zones through the bundled provider, years 1800..2037 (what the zone's offset is, is C13/C15's business:
                // the offset reported by the public getter travels with the event)
                let ns = (if r.chance(1, 3) { r.range(-5_364_662_400, -2_500_000_000) } else { r.range(-5_364_662_400, 2_145_916_800) }) as i128 * 1_000_000_000 + sub_ns(r) as i128;
                let v = json!({"ns": big(ns), "tz": chars_tok(*r.pick(&NAMED)), "cal": *r.pick(&CALS)});
                let off = ops::exec("ZonedDateTime.offsetNs", &json!({"v": v}));
                if off["kind"] == "ok" {
                    let o = crate::js::unbig(&off["val"]);
                    if o % 1_000_000_000 == 0 {
                        let mut a = json!({"v": v, "offs": (o / 1_000_000_000) as i64});
                        // (one in three through Display / to_string: a separate entry point that must print the same text, also for
                        // the local-mean-time offsets with seconds before the zones were standardised)
                        if r.chance(1, 3) { a["via"] = json!("display"); } else {
                            cal_opt(r, &mut a); prec_opts(r, &mut a, true);
                            if r.chance(1, 4) { a["od"] = json!("never"); }
                            if r.chance(1, 4) { a["zd"] = json!(*r.pick(&["critical", "auto"])); }
                        }
                        cycle(t, "ZonedDateTime", a, false);
                    }
                }
            }
            10 => {
                let (e, vars) = *r.pick(&ENUMS);
                t.call("Enum.display", json!({"enum": e, "variant": *r.pick(vars)}));
                t.call("Enum.parse", json!({"enum": e, "chars": chars_tok(*r.pick(&NAMES))}));
            }
            _ => match r.range(0, 3) {
                0 => { t.call("Fmt.TimeZone", json!({"tz": chars_tok(&offset_id(r))})); }
                1 => { t.call("Fmt.TimeZone", json!({"tz": chars_tok(*r.pick(&NAMED))})); }
                2 => { t.call("Fmt.MonthCode", json!({"chars": chars_tok(&format!("M{:02}{}", r.range(1, 13), if r.chance(1, 3) { "L" } else { "" }))})); }
                _ => { t.call("Fmt.Calendar", json!({"chars": chars_tok(*r.pick(&["iso8601", "gregory", "hebrew", "ISO8601", "Japanese", "roc", "islamic-civil", "persian"]))})); }
            },
        }
        t.reset();
    }
}
