SPECIFICATION TSpec
CONSTANTS
  DaySec = 86400
  Disk0 <- Empty
  Workload = {}
  Once = FALSE
  OneStep = FALSE
  Classes = TRUE
INVARIANT MemoOK
POSTCONDITION Accepted
CHECK_DEADLOCK FALSE
