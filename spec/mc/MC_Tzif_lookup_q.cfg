SPECIFICATION Spec
CONSTANTS
  DaySec = 24
  Disk0 <- ToyDisk
  Workload <- QOffsetQueries
  Once = FALSE
  OneStep = TRUE
INVARIANTS LawIdx LawAnswer LawPiecewise LawBeforeFirst
CHECK_DEADLOCK FALSE
