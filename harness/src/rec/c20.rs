//! C20 sessions. One session = one fresh process in which N = 2..16 real threads hammer the
//! convenience ("compiled") API - the process-wide TZ_PROVIDER - over mixed zones, cold at first,
//! warm later, with unknown-zone and out-of-range calls interleaved; fault sessions add a phase in
//! which one thread panics while holding the provider lock (injected hook, or a natural input that
//! makes the provider panic), followed by calls from all threads.
//! `tvh record c20 <seed> <n_sessions> <out>` writes one NDJSON line per session (see sp_c20::run_session).
use super::Tracer;
use crate::gen::*;
use crate::js::big;
use crate::rng::Rng;
use serde_json::{json, Value};
use std::io::Write;

// the last six: zones that share long identifier prefixes but have different rules (a cache keyed by a shortened identifier would confuse them)
const ZONES: [&str; 20] = ["America/New_York", "Europe/Berlin", "Asia/Tokyo", "Australia/Sydney", "America/Sao_Paulo", "Africa/Cairo",
    "Asia/Kolkata", "Europe/London", "Pacific/Auckland", "America/Los_Angeles", "UTC", "Europe/Paris", "US/Eastern", "Pacific/Apia",
    "America/Indiana/Indianapolis", "America/Indiana/Knox", "America/Argentina/Buenos_Aires", "America/Argentina/San_Luis", "America/North_Dakota/Center", "America/Kentucky/Monticello"];
const FIXED: [&str; 3] = ["+05:30", "-08:00", "+00:00"];
// (the last four name directories of the database, or a file with something below it: a failed lookup of "Europe" must not
// change what a later lookup of a zone below it answers)
// (... and files of the database directory that are no TZif data: the read succeeds, the parse fails)
const BAD: [&str; 10] = ["Nowhere/Land", "Mars/Olympus_Mons", "Europe/Atlantis", "Europe", "America/Indiana", "America/Argentina", "UTC/Nowhere", "zone.tab", "tzdata.zi", "leapseconds"];
const FIELDS: [&str; 13] = ["year", "month", "day", "hour", "minute", "second", "millisecond", "dayOfWeek", "dayOfYear", "daysInMonth", "inLeapYear", "hoursInDay", "offsetSeconds"];

/// an instant between 1972 and 2036 that is not on a whole second (so never exactly on a transition).
/// Earlier wall-clock times and later instants make the provider itself panic in the unchanged tree
/// (tzdb.rs:314 / :382, see natural_panic); they are kept for the fault histories.
fn instant(r: &mut Rng) -> Value {
    let s = r.range(63_072_000, 2_100_000_000) as i128;
    big(s * 1_000_000_000 + r.range(1, 999_999_999) as i128)
}
fn wall(r: &mut Rng) -> (i64, i64, i64, i64, i64) {
    let (y, m, d) = civil(r.range(731, 24_000));
    (y, m, d, r.range(0, 23), r.range(0, 59))
}

/// zone of a call: `fault` = "unknown" picks an identifier without a TZif file
fn zone(r: &mut Rng, pool: &[&'static str], fault: &str) -> &'static str {
    if fault == "unknown" { *r.pick(&BAD) } else if r.chance(1, 9) { *r.pick(&FIXED) } else { *r.pick(pool) }
}

/// one convenience-API call. fault: "" | "unknown" (zone without data) | "range" (out-of-range value)
pub fn call(r: &mut Rng, pool: &[&'static str], fault: &str) -> Value {
    let tz = zone(r, pool, fault);
    let ns = instant(r);
    let huge = fault == "range";
    match r.range(0, 13) {
        0..=3 => {
            if huge { return json!({"op": "CZ.add", "args": {"ns": ns, "tz": tz, "dur": {"y": 300000}}}); }
            json!({"op": "CZ.get", "args": {"ns": ns, "tz": tz, "f": *r.pick(&FIELDS)}})
        }
        4 | 5 => {
            let (y, m, d, h, mi) = wall(r);
            let s = if huge { format!("+275760-09-14T{:02}:{:02}[{}]", h, mi, tz) } else { format!("{:04}-{:02}-{:02}T{:02}:{:02}[{}]", y, m, d, h, mi, tz) };
            if r.chance(1, 2) { json!({"op": "CZ.fromStr", "args": {"s": s}}) } else { json!({"op": "CRelTo.fromStr", "args": {"s": s}}) }
        }
        6 => json!({"op": "CZ.startOfDay", "args": {"ns": ns, "tz": tz}}),
        7 => json!({"op": *r.pick(&["CZ.toString", "CZ.display", "CZ.offset", "CNow.date", "CNow.dateTime", "CNow.time"]), "args": {"ns": ns, "tz": tz}}),
        8 => {
            let dur = if huge { json!({"y": 300000, "d": r.range(0, 40)}) } else { json!({"mo": r.range(-14, 14), "d": r.range(-40, 40), "h": r.range(-30, 30)}) };
            let dur = fix_sign(dur);
            json!({"op": if r.chance(1, 2) { "CZ.add" } else { "CZ.subtract" }, "args": {"ns": ns, "tz": tz, "dur": dur}})
        }
        9 => json!({"op": "CZ.until", "args": {"ns": ns, "tz": tz, "other": {"ns": instant(r), "tz": tz}, "st": {"largest": *r.pick(&["hour", "day", "month", "year"])}}}),
        10 | 11 => {
            let dur = if huge { json!({"y": 300000, "d": 3}) } else { json!({"mo": r.range(0, 14), "d": r.range(0, 50), "h": r.range(0, 40)}) };
            let rel = json!({"ns": ns, "tz": tz});
            match r.range(0, 2) {
                0 => json!({"op": "CDur.round", "args": {"dur": dur, "st": {"largest": *r.pick(&["month", "year", "week", "day"]), "smallest": "day"}, "rel": rel}}),
                1 => json!({"op": "CDur.total", "args": {"dur": dur, "unit": *r.pick(&["day", "hour", "month"]), "rel": rel}}),
                _ => json!({"op": "CDur.compare", "args": {"dur": dur, "other": {"d": r.range(0, 60)}, "rel": rel}}),
            }
        }
        12 => json!({"op": "CInstant.toString", "args": {"ns": ns, "tz": tz}}),
        _ => {
            let (y, m, d, h, mi) = if huge { (275760, 9, 13, 23, 59) } else { wall(r) };
            json!({"op": "CPDT.toZoned", "args": {"dt": {"y": y, "m": m, "d": d, "h": h, "mi": mi, "s": 0, "ms": 0, "us": 0, "ns": 0}, "tz": tz}})
        }
    }
}

/// duration fields must share one sign
fn fix_sign(mut d: Value) -> Value {
    let m = d.as_object_mut().unwrap();
    let neg = m.values().find(|v| v.as_i64().unwrap_or(0) != 0).map(|v| v.as_i64().unwrap() < 0).unwrap_or(false);
    for v in m.values_mut() { let x = v.as_i64().unwrap().abs(); *v = json!(if neg { -x } else { x }); }
    d
}

/// inputs that make the provider panic under the lock in the unchanged tree (found by probing; F comes from
/// the reference run, so nothing here is assumed to panic)
fn natural_panic(r: &mut Rng) -> Value {
    match r.range(0, 4) {
        // any wall-clock time between the two last transitions of a zone with a short table
        4 => json!({"op": "CZ.fromStr", "args": {"s": "1973-01-03T04:49[Asia/Kathmandu]"}}),
        // a wall-clock time near the start of the zone's transition table (v2_estimate_tz_pair: new_idx - 1)
        3 => json!({"op": "CZ.fromStr", "args": {"s": "1902-12-23T23:27[Europe/London]"}}),
        // the first transition second of the zone's 64-bit table (Tzif::get: Ok(idx) => idx - 1)
        0 => json!({"op": "CZ.get", "args": {"ns": big(-2_717_650_800i128 * 1_000_000_000), "tz": "America/New_York", "f": "hour"}}),
        // an instant after the last table transition of a zone with a DST footer (i32 overflow in the POSIX-TZ path)
        1 => json!({"op": "CZ.get", "args": {"ns": big(2_208_988_800i128 * 1_000_000_000), "tz": "America/New_York", "f": "hour"}}),
        _ => json!({"op": "CZ.toString", "args": {"ns": big(2_524_608_000i128 * 1_000_000_000), "tz": "Europe/Berlin"}}),
    }
}

fn burst(r: &mut Rng, pool: &[&'static str], m: usize) -> Value {
    let mut v: Vec<Value> = Vec::new();
    while v.len() < m {
        let fault = match r.range(0, 11) { 0 => "unknown", 1 => "range", _ => "" };
        // "X, failing call, X again": a failed call between two identical successful ones must not change the second answer
        // (with one thread the three calls are consecutive for the provider; with more threads they usually are not)
        if fault != "" && r.chance(1, 2) {
            let x = json!({"op": "CPDT.toZoned", "args": {"dt": {"y": 2001, "m": 9, "d": 9, "h": r.range(0, 23), "mi": r.range(0, 59), "s": 0, "ms": 0, "us": 0, "ns": 0}, "tz": zone(r, pool, "")}});
            let bad = json!({"op": "CPDT.toZoned", "args": {"dt": {"y": 275760, "m": 9, "d": 13, "h": 23, "mi": 59, "s": 0, "ms": 0, "us": 0, "ns": 0}, "tz": *r.pick(&["America/New_York", "America/Los_Angeles", "America/Sao_Paulo"][..])}});
            v.push(x.clone()); v.push(if fault == "range" { bad } else { call(r, pool, fault) }); v.push(x);
            continue;
        }
        // beyond the zone's transition table (it ends in 2037; the footer rule takes over): an instant of the winter after the last listed
        // transition, then one of a later summer, in the same zone - as two consecutive calls and inside one call (until in days)
        if fault == "" && r.chance(1, 10) {
            let tz = *r.pick(&["America/New_York", "Europe/Berlin", "Europe/London", "America/Los_Angeles", "Australia/Sydney", "Europe/Paris"][..]);
            let w = r.range(2_141_100_000, 2_150_900_000) as i128 * 1_000_000_000 + r.range(1, 999_999_999) as i128;
            let s2 = w + (r.range(150, 230) + 365 * r.range(0, 2)) as i128 * 86_400_000_000_000;
            if r.chance(1, 2) {
                v.push(json!({"op": "CZ.get", "args": {"ns": big(w), "tz": tz, "f": "offsetSeconds"}}));
                v.push(json!({"op": "CZ.get", "args": {"ns": big(s2), "tz": tz, "f": *r.pick(&["offsetSeconds", "hour"])}}));
            } else {
                v.push(json!({"op": "CZ.until", "args": {"ns": big(w), "tz": tz, "other": {"ns": big(s2), "tz": tz}, "st": {"largest": "day"}}}));
            }
            continue;
        }
        v.push(call(r, pool, fault));
    }
    Value::Array(v)
}

/// session plan: {"n": N, "kind", "phases": [[[call..] per thread] per phase]}
pub fn plan(r: &mut Rng, sid: usize) -> Value {
    let n = [2usize, 3, 4, 6, 8, 12, 16][sid % 7].max(2);
    // a small pool makes threads collide on the same cold zones; a large one mixes cold and warm
    let k = if r.chance(1, 2) { r.range(1, 3) as usize } else { r.range(4, ZONES.len() as i64) as usize };
    let mut pool: Vec<&'static str> = Vec::new();
    while pool.len() < k { let z = *r.pick(&ZONES); if !pool.contains(&z) { pool.push(z); } }
    // in half of the sessions two zones with a common 16-byte identifier prefix and different rules are used side by side
    if r.chance(1, 2) { for z in ["America/Indiana/Indianapolis", "America/Indiana/Knox"] { if !pool.contains(&z) { pool.push(z); } } }
    // hammer sessions: many cheap getter calls from a small set of (zone, instant) pairs on every thread at once - state kept
    // outside the provider lock (a memo of the last answer, say) shows only under this kind of contention
    if sid % 3 == 1 {
        let zs: Vec<&'static str> = ZONES.iter().cloned().take(12).collect();
        let distinct: Vec<Value> = (0..12).map(|i| { let ns = instant(r); let tz = zs[i % zs.len()];
            match i % 4 { 0 => json!({"op": "CZ.offset", "args": {"ns": ns, "tz": tz}}), 3 => json!({"op": "CZ.display", "args": {"ns": ns, "tz": tz}}), 1 => json!({"op": "CZ.get", "args": {"ns": ns, "tz": tz, "f": "hour"}}),
                          _ => json!({"op": "CZ.get", "args": {"ns": ns, "tz": tz, "f": "offsetSeconds"}}) } }).collect();
        // mostly the same getter (offset_nanoseconds) on three (zone, instant) pairs with different offsets: consecutive reads of the
        // same pair from different threads, with writes for the other pairs in between
        let pairs: Vec<Value> = ["America/New_York", "Asia/Kolkata", "Australia/Sydney"].iter().map(|tz| json!({"op": "CZ.get", "args": {"ns": instant(r), "tz": tz, "f": "offsetSeconds"}})).collect();
        // ... and the Display of a zoned date-time in a fourth zone: a result that depends on whether the lock happens to be free
        // (a non-blocking fast path) differs from the call's result alone only while the others keep the lock busy
        let mut pairs = pairs; pairs.push(json!({"op": "CZ.display", "args": {"ns": instant(r), "tz": "Europe/Berlin"}}));
        // ... and the Now functions against each other (two locks taken in opposite orders would meet here)
        for op in ["CNow.date", "CNow.dateTime", "CNow.time"] { pairs.push(json!({"op": op, "args": {"ns": instant(r), "tz": "Asia/Tokyo"}})); }
        let calls = if n > 8 { 250 } else { 500 };
        let ph = Value::Array((0..n).map(|_| Value::Array((0..calls).map(|_| if r.chance(1, 8) { r.pick(&distinct[..]).clone() } else { r.pick(&pairs[..]).clone() }).collect())).collect());
        return json!({"n": n, "kind": "clean", "phases": [ph]});
    }
    let per = r.range(4, 10) as usize;
    let fault_session = sid % 3 == 2;
    let mut phases: Vec<Value> = Vec::new();
    if !fault_session {
        phases.push(Value::Array((0..n).map(|_| burst(r, &pool, per)).collect()));
        if r.chance(1, 2) { phases.push(Value::Array((0..n).map(|_| burst(r, &pool, per / 2 + 1)).collect())); }
        return json!({"n": n, "kind": "clean", "phases": phases});
    }
    // fault history: warm-up | one thread panics holding the lock (others idle or racing) | everybody calls again
    phases.push(Value::Array((0..n).map(|_| burst(r, &pool, per / 2 + 1)).collect()));
    let culprit = r.range(0, n as i64 - 1) as usize;
    let natural = r.chance(1, 3);
    let racing = r.chance(1, 3);
    let fault_call = if natural { natural_panic(r) } else { json!({"op": "Lock.panic", "args": {}}) };
    phases.push(Value::Array((0..n).map(|t| if t == culprit { json!([fault_call]) } else if racing { burst(r, &pool, 2) } else { json!([]) }).collect()));
    phases.push(Value::Array((0..n).map(|_| burst(r, &pool, per / 2 + 1)).collect()));
    json!({"n": n, "kind": if natural { "natural-panic" } else { "injected-panic" }, "phases": phases})
}

pub fn drive(t: &mut Tracer, r: &mut Rng, n: usize) {
    // n = number of sessions; sessions are independent processes, run a few at a time
    let plans: Vec<Value> = (0..n).map(|sid| plan(r, sid)).collect();
    let next = std::sync::atomic::AtomicUsize::new(0);
    let out = std::sync::Mutex::new(Vec::<(usize, Value)>::new());
    std::thread::scope(|s| {
        for _ in 0..3 {
            s.spawn(|| loop {
                let i = next.fetch_add(1, std::sync::atomic::Ordering::Relaxed);
                if i >= n { break; }
                let line = crate::sp_c20::run_session(i + 1, &plans[i]);
                out.lock().unwrap().push((i, line));
            });
        }
    });
    let mut lines = out.into_inner().unwrap();
    lines.sort_by_key(|x| x.0);
    for (_, l) in lines { writeln!(t.f, "{}", l).unwrap(); t.n += 1; }
}
