---------------------------- MODULE Trace_Limits ----------------------------
(* impl -> spec for the near-boundary sessions of C02: operands within a few units of each limit, durations with huge fields. *)
EXTENDS DateTimeArith, Duration, TraceBase
VARIABLES l
tvars == <<l>>
E == Rec[l]
St(e) == e.args.st
In(j) == DT(Date(j.y, j.m, j.d), Time(j.h, j.mi, j.s, j.ms, j.us, j.ns))
DTJ(x) == [y |-> x.date.y, m |-> x.date.m, d |-> x.date.d, h |-> x.time.h, mi |-> x.time.mi, s |-> x.time.s, ms |-> x.time.ms, us |-> x.time.us, ns |-> x.time.ns]
OutJ(o) == IF o.kind = "ok" THEN Ok(DTJ(o.val)) ELSE o
Ovf(a) == Get(a, "ovf", "constrain")
Expected(e) ==
  CASE e.op = "PlainDate.new" -> IF ValidDate(e.args.d) /\ InDateRange(DFC(e.args.d)) THEN Ok(e.args.d) ELSE ErrRange
    [] e.op = "PlainDate.add" -> AddDate(e.args.recv, e.args.dur, Ovf(e.args))
    [] e.op = "PlainDate.subtract" -> SubDate(e.args.recv, e.args.dur, Ovf(e.args))
    [] e.op = "PlainDateTime.new" -> OutJ(DTNew(In(e.args.dt)))
    [] e.op = "PlainDateTime.add" -> OutJ(AddDT(In(e.args.recv), e.args.dur, Ovf(e.args)))
    [] e.op = "PlainDateTime.subtract" -> OutJ(SubDT(In(e.args.recv), e.args.dur, Ovf(e.args)))
    [] e.op = "PlainDateTime.round" -> OutJ(RoundDT(In(e.args.recv), St(e).smallest, St(e).inc, St(e).mode))
    [] e.op \in {"PlainDate.toPlainDateTime", "PlainDateTime.fromDateAndTime", "PlainDateTime.withTime"} -> OutJ(DTNew(DT(e.args.recv, e.args.time)))
    [] e.op = "PlainDate.epochNsUtc" -> IF DFC(e.args.recv) > MinDay THEN Ok(Mul(DayNsBig, FromInt(DFC(e.args.recv)))) ELSE ErrRange
    [] e.op = "Instant.new" -> InstantNew(e.args.ns)
    [] e.op = "ZonedDateTime.new" -> InstantNew(e.args.ns)
    [] e.op = "Instant.add" -> InstantAdd(e.args.recv, e.args.dur)
    [] e.op = "Instant.subtract" -> InstantSub(e.args.recv, e.args.dur)
    [] e.op = "Instant.round" -> InstantRound(e.args.recv, St(e).smallest, St(e).inc, St(e).mode)
    [] e.op = "Instant.fromEpochMs" -> FromEpochMs(e.args.ms)
    [] e.op = "Duration.new" -> DurNew(e.args.dur)
    [] e.op = "Duration.add" -> DurAdd(e.args.recv, e.args.other)
\* every successful value is well-formed and in range, whatever the specification expected
WellFormedOut(e) ==
  e.out.kind # "ok" \/
  CASE e.op \in {"PlainDate.new", "PlainDate.add", "PlainDate.subtract"} -> ValidDate(e.out.val) /\ InDateRange(DFC(e.out.val))
    [] e.op \in {"PlainDateTime.new", "PlainDateTime.add", "PlainDateTime.subtract", "PlainDateTime.round", "PlainDate.toPlainDateTime", "PlainDateTime.fromDateAndTime", "PlainDateTime.withTime"} ->
         ValidDT(In(e.out.val)) /\ InDTRange(In(e.out.val))
    [] e.op \in {"Instant.new", "ZonedDateTime.new", "Instant.add", "Instant.subtract", "Instant.round", "Instant.fromEpochMs", "PlainDate.epochNsUtc"} -> IsBig(e.out.val) /\ InInstantRange(e.out.val)
    [] e.op \in {"Duration.new", "Duration.add"} -> ValidDur(e.out.val)
    [] OTHER -> TRUE
ClsOf(e) == (IF Expected(e).kind = "ok" THEN "in-range" ELSE "beyond") \o (IF ~WellFormedOut(e) THEN "/malformed-result" ELSE "")
TInit == l = 1
Good(e) == Expected(e) = e.out /\ WellFormedOut(e)
TNext == /\ l <= NEv /\ l' = l + 1
         /\ \/ E.op = "reset"
            \/ E.op # "reset" /\ Good(E)
            \/ E.op # "reset" /\ ~Good(E) /\ Report(l, E.op, ClsOf(E), Expected(E), E.out)
TSpec == TInit /\ [][TNext]_tvars
=============================================================================
