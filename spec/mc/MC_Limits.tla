------------------------------ MODULE MC_Limits ------------------------------
EXTENDS LimitsMachine, TLC, Json
Cls == cell.k \o "/" \o last.out.kind
CaseOf == [op |-> last.op, cls |-> Cls, args |-> last.args, out |-> last.out]
Emit == ~Done \/ PrintT("CASE " \o ToJson(CaseOf))
=============================================================================
