#!/usr/bin/env python3
"""Regenerates MANIFEST.json from the table below (python3 vc/manifest.py)."""
import json, os
ROOT = os.path.dirname(os.path.dirname(os.path.abspath(__file__)))
ALL = ["C%02d" % i for i in range(1, 21)]

CLAIMED = {
 "C01": dict(
   technique="TLA+ Gregorian walk model checked by TLC (+ Apalache unbounded lemmas); TLC-generated 400-year cycle table tiled over all 2e8 days and replayed into the real API; TLC trace validation of seeded date sessions",
   text="TLC model-checks the Gregorian walk spec (one full 400-year cycle and windows at both range ends, year 0 and the epoch) against closed forms, ISO-week and ordering invariants; Apalache proves round trip, successor and 400-year periodicity for all integer years (thorough). The TLC-generated cycle table is tiled over the range and every day (thorough: all 200 000 005 days incl. two outside each end; quick: 23 of 1370 cycles) is stepped through ~25 public calls and the kernel hooks; seeded sessions over the whole range are validated as behaviours of the DateArith spec by TLC.",
   note="Trusted: TLC/Apalache, the JSON projection glue (harness/src/proj.rs, js.rs), harness i128 arithmetic for n*86400e9, periodicity lemma used for tiling (checked by TLC on one period, by Apalache for all years).",
   ref="DESIGN.md §5 C01"),
 "C04": dict(
   technique="TLA+ DateArith spec (AddISODate/DifferenceISODate) model checked by TLC; all transitions of the bounded instance replayed into PlainDate add/subtract/until/since; TLC trace validation of seeded full-range sessions",
   text="TLC checks on the DateArith model the inverse law add(until)=end for every largest unit, closed form = literal Temporal loops, balancedness, sign uniformity, day-distance, subtract=add(negated), reject rule, for all ordered pairs of a window with a leap and a common February, month ends and year changes (and a window around year 0). Every one of those transitions (quick 223k, thorough 8.5M) is replayed through the real API comparing all ten duration fields / dates / error kinds; seeded sessions over the whole range with mixed-unit and huge durations are accepted or rejected by TLC against the same spec.",
   note="Trusted: TLC, projection glue (proj.rs/js.rs). The spec is my transcription of Temporal's AddISODate/DifferenceISODate; its closed form is checked against the literal candidate loops on the model.",
   ref="DESIGN.md §5 C04"),
}
NOT_YET = "check not built yet in this revision (build order in DESIGN.md §10); will be claimed once its TLA+ module and conformance harness exist"

def main():
    checks = []
    for p in ALL:
        if p not in CLAIMED:
            continue
        c = CLAIMED[p]
        checks.append(dict(property_id=p, quick_cmd=f"bin/vcheck {p} quick", thorough_cmd=f"bin/vcheck {p} thorough",
                           evidence_file=f"evidence/{p}.json", replay_cmd_template=f"bin/vcheck {p} --replay {{path}}", engine="vcheck",
                           level_claimed=dict(category="model_checking", text=c["text"], design_ref=c["ref"]),
                           level_note=c["note"], technique=c["technique"]))
    m = dict(version=1,
             setup_cmd="cd harness && cp -n /repo/Cargo.lock Cargo.lock; CARGO_NET_OFFLINE=true cargo build --offline -q && cd .. && bin/vcheck --selftest",
             hooks=dict(guard="cfg(temporal_verif)", enable="harness/.cargo/config.toml passes rustflags --cfg temporal_verif (RUSTFLAGS='--cfg temporal_verif --check-cfg cfg(temporal_verif)')",
                        baseline_off_cmd="cd /repo && cargo test --workspace --no-fail-fast --offline",
                        source_commits=["207d4ac", "353e56f"], add_only=True),
             engines=[dict(name="vcheck", path="bin/vcheck", serves_properties=sorted(CLAIMED),
                           kind_free_text="python orchestrator: TLC model checking of spec/*.tla, TLC case generation -> Rust replay harness (harness/), Rust seeded recorders -> TLC trace validation (spec/trace), Apalache lemmas (spec/apa)")],
             checks=checks,
             notes="All checks decide their property with the explicit TLA+ specification under spec/ (model checked by TLC, bound to the code by spec->impl replay and impl->spec trace validation). See DESIGN.md.",
             not_applicable=[dict(property_id=p, reason=NOT_YET) for p in ALL if p not in CLAIMED])
    json.dump(m, open(os.path.join(ROOT, "MANIFEST.json"), "w"), indent=1)

if __name__ == "__main__":
    main()
