---------------------------- MODULE TemporalBase ----------------------------
(***************************************************************************)
(* Shared vocabulary: units, rounding modes, outcome kinds, duration        *)
(* records in the harness's JSON shape.                                     *)
(***************************************************************************)
EXTENDS Integers, Sequences, BigInt

Units == <<"nanosecond", "microsecond", "millisecond", "second", "minute", "hour", "day", "week", "month", "year">>
UnitSet == {Units[i] : i \in 1..Len(Units)}
UnitIdx(u) == CHOOSE i \in 1..Len(Units) : Units[i] = u
UnitLe(a, b) == UnitIdx(a) <= UnitIdx(b)
UnitMax(a, b) == IF UnitLe(a, b) THEN b ELSE a
DateUnits == {"day", "week", "month", "year"}
TimeUnits == UnitSet \ DateUnits
CalendarUnits == {"week", "month", "year"}

Modes == {"ceil", "floor", "expand", "trunc", "halfCeil", "halfFloor", "halfExpand", "halfTrunc", "halfEven"}
NegateMode(m) == CASE m = "ceil" -> "floor" [] m = "floor" -> "ceil"
                   [] m = "halfCeil" -> "halfFloor" [] m = "halfFloor" -> "halfCeil"
                   [] OTHER -> m

OkKinds == {"ok", "type", "range", "syntax"}
Ok(v) == [kind |-> "ok", val |-> v]
ErrRange == [kind |-> "range"]
ErrType == [kind |-> "type"]

\* duration record in the harness's shape: ten bigs
DurKeys == <<"y", "mo", "w", "d", "h", "mi", "s", "ms", "us", "ns">>
Dur10(y, mo, w, d, h, mi, s, ms, us, ns) ==
  [y |-> y, mo |-> mo, w |-> w, d |-> d, h |-> h, mi |-> mi, s |-> s, ms |-> ms, us |-> us, ns |-> ns]
DateDur(y, mo, w, d) == Dur10(FromInt(y), FromInt(mo), FromInt(w), FromInt(d), Zero, Zero, Zero, Zero, Zero, Zero)
ZeroDur == DateDur(0, 0, 0, 0)
DurFields(D) == <<D.y, D.mo, D.w, D.d, D.h, D.mi, D.s, D.ms, D.us, D.ns>>
DurSign(D) == LET f == DurFields(D)
                  pos == \E i \in 1..10 : f[i].s = 1
                  neg == \E i \in 1..10 : f[i].s = -1
              IN IF pos /\ neg THEN 2 ELSE IF pos THEN 1 ELSE IF neg THEN -1 ELSE 0
SignUniform(D) == DurSign(D) # 2
NegDur(D) == Dur10(Neg(D.y), Neg(D.mo), Neg(D.w), Neg(D.d), Neg(D.h), Neg(D.mi), Neg(D.s), Neg(D.ms), Neg(D.us), Neg(D.ns))

\* multiplications by powers of 1000 (MulSmall's factor must stay <= 200000)
K3(b) == MulSmall(b, 1000)
K6(b) == K3(K3(b))
K9(b) == K3(K6(b))
\* total of the time fields (h..ns) in nanoseconds, exact
TimeNs(D) == Add(Add(Add(K9(MulSmall(D.h, 3600)), K9(MulSmall(D.mi, 60))),
                     Add(K9(D.s), K6(D.ms))),
                 Add(K3(D.us), D.ns))
\* big / 86400e9 truncated (whole days in a time total), quotient as big
NsToDaysTrunc(b) == TruncDivSmall(TruncDivSmall(TruncDivSmall(TruncDivSmall(b, 1000).q, 1000).q, 1000).q, 86400).q
=============================================================================
