------------------------ MODULE RelativeRoundMachine ------------------------
(* State machine over RelativeRound: a (reference date, duration) pair; one step per round / total / compare call; C08's clauses as laws. *)
EXTENDS RelativeRound
CONSTANTS Rels, Durs, Opts, TotalUnits, OneStep        \* Opts: [lg, sm, inc, mode]
VARIABLES cur, last
vars == <<cur, last>>
None == [op |-> "none"]
Init == cur \in [rel : Rels, dur : Durs] /\ last = None
RoundAct(o) == last' = [op |-> "round", rel |-> cur.rel, dur |-> cur.dur, o |-> o, out |-> RoundRel(cur.rel, cur.dur, o.lg, o.sm, o.inc, o.mode)] /\ UNCHANGED cur
TotalAct(u) == last' = [op |-> "total", rel |-> cur.rel, dur |-> cur.dur, u |-> u, out |-> TotalRel(cur.rel, cur.dur, u)] /\ UNCHANGED cur
CmpAct(b) == last' = [op |-> "compare", rel |-> cur.rel, dur |-> cur.dur, b |-> b, out |-> CompareRel(cur.rel, cur.dur, b)] /\ UNCHANGED cur
\* day-and-time-only durations that lead to the same end point as D from rel, and to the days just before and after it:
\* comparing D with them pins the calendar part of D down to the day (equal / one day less / one day more)
NearDays(rel, D) ==
  LET tg == TargetOf(rel, D)
  IN IF tg.kind # "ok" THEN {}
     ELSE LET n == DFC(tg.val.date) - DFC(rel)
              tns == TimeNsOf(tg.val.time)
              \* for a negative duration the time part counts backwards from the following midnight
              DayDur(k) == IF DurSign(D) >= 0 THEN Dur10(Zero, Zero, Zero, FromInt(n + k), Zero, Zero, Zero, Zero, Zero, tns)
                       ELSE IF IsZero(tns) THEN Dur10(Zero, Zero, Zero, FromInt(n + k), Zero, Zero, Zero, Zero, Zero, Zero)
                       ELSE Dur10(Zero, Zero, Zero, FromInt(n + 1 + k), Zero, Zero, Zero, Zero, Zero, Neg(Sub(DayNsBig, tns)))
              \* the same three with one day carried as 24 (or 48) hours in the hours field: an unbalanced time part that outweighs the day gap
              Unb(d, hrs) == LET sg == DurSign(d) IN [d EXCEPT !.d = Sub(d.d, FromInt(sg * (hrs \div 24))), !.h = FromInt(sg * hrs)]
              base == {DayDur(-1), DayDur(0), DayDur(1)}
          IN {d \in base \cup {Unb(d, 24) : d \in base} \cup {Unb(d, 48) : d \in base} : SignUniform(d)}
\* PlainDate.until / since with rounding options between the reference date and dates some days away (from one anchor duration only:
\* the call does not involve the duration); `bare`: the units are left out of the call (defaults: day / day)
DiffOffsets == {-400, -59, -45, -10, -1, 0, 1, 10, 45, 59, 400}
AnchorDur == CHOOSE d \in Durs : TRUE
DateOpts == {o \in Opts : o.sm \in DateUnits /\ o.lg \in DateUnits}
DateDiffAct(k, o, since, bare) ==
  /\ cur.dur = AnchorDur /\ (bare => o.lg = "day" /\ o.sm = "day")
  /\ LET b == CivilFromDays(DFC(cur.rel) + k)
     IN last' = [op |-> "datediff", rel |-> cur.rel, dur |-> cur.dur, b |-> b, o |-> o, since |-> since, bare |-> bare,
                 out |-> DateDiffRounded(cur.rel, b, o.lg, o.sm, o.inc, o.mode, since)]
  /\ UNCHANGED cur
\* PlainDateTime.until / since with rounding options: times on both sides chosen so that the time-of-day order agrees and disagrees
\* with the date order; cal: the same values under the gregory calendar (same answers); nomode: the mode left out of the call (trunc)
DTOffsets == {-45, -1, 0, 1, 45}
DTTimesA == {Time(0, 0, 0, 0, 0, 0), Time(12, 0, 0, 0, 0, 0)}
DTTimesB == {Time(6, 0, 0, 0, 0, 0), Time(23, 59, 59, 999, 999, 999)}
DTDiffAct(k, ta, tb, o, since, cal, nomode) ==
  /\ cur.dur = AnchorDur /\ (nomode => o.mode = "trunc") /\ (cal = "gregory" => o.inc = 1 /\ o.mode = "trunc" /\ o.lg \notin CalendarUnits)   \* (calendar-unit arithmetic is not implemented for non-ISO calendars)
  /\ LET a == DT(cur.rel, ta)   b == DT(CivilFromDays(DFC(cur.rel) + k), tb)
     IN last' = [op |-> "dtdiff", rel |-> cur.rel, dur |-> cur.dur, a |-> a, b |-> b, o |-> o, since |-> since, cal |-> cal, nomode |-> nomode,
                 out |-> DTDiffRounded(a, b, o.lg, o.sm, o.inc, o.mode, since)]
  /\ UNCHANGED cur
\* the same call with largestUnit left out: it is then the larger of the duration's own largest unit and the smallest unit - and the option
\* rule (a date smallest unit takes an increment above 1 only as the largest unit too) is applied to THAT unit
RoundAbsentAct(o) == LET lg == UnitMax(DefaultLargest(cur.dur), o.sm)
                     IN last' = [op |-> "round", rel |-> cur.rel, dur |-> cur.dur, o |-> [o EXCEPT !.lg = lg], absent |-> TRUE,
                                 out |-> RoundRel(cur.rel, cur.dur, lg, o.sm, o.inc, o.mode)] /\ UNCHANGED cur
Next == /\ (OneStep => last = None)
        /\ \/ \E o \in Opts : UnitLe(o.sm, o.lg) /\ RoundAct(o)
           \/ \E o \in Opts : o.lg = o.sm /\ RoundAbsentAct(o)
           \/ \E k \in DTOffsets, ta \in DTTimesA, tb \in DTTimesB, o \in Opts, since \in BOOLEAN, cal \in {"iso8601", "gregory"}, nomode \in BOOLEAN :
                  UnitLe(o.sm, o.lg) /\ DTDiffAct(k, ta, tb, o, since, cal, nomode)
           \/ \E k \in DiffOffsets, o \in DateOpts, since \in BOOLEAN, bare \in BOOLEAN : UnitLe(o.sm, o.lg) /\ DateDiffAct(k, o, since, bare)
           \/ \E u \in TotalUnits : TotalAct(u)
           \/ \E b \in Durs \cup NearDays(cur.rel, cur.dur) : CmpAct(b)
Spec == Init /\ [][Next]_vars

\* since = the negated until under the negated mode; and with increment 1 and smallest unit day the plain difference
DateDiffLaw == last.op = "datediff" =>
  /\ (last.since => last.out = NegOut(DateDiffRounded(last.rel, last.b, last.o.lg, last.o.sm, last.o.inc, NegateMode(last.o.mode), FALSE)))
  /\ (last.out.kind = "ok" => ValidDur(last.out.val) /\ IsZero(last.out.val.h) /\ IsZero(last.out.val.ns))
DTDiffLaw == last.op = "dtdiff" =>
  (last.since => last.out = NegOut(DTDiffRounded(last.a, last.b, last.o.lg, last.o.sm, last.o.inc, NegateMode(last.o.mode), FALSE)))
IsRound == last.op = "round" /\ last.out.kind = "ok"
R == last.out.val
O == last.o
Sg == DurSign(last.dur)
Tgt == TargetOf(last.rel, last.dur).val
RTgt == TargetOf(last.rel, R).val           \* where the rounded duration leads
F(D) == [y |-> ToInt(D.y), mo |-> ToInt(D.mo), w |-> ToInt(D.w), d |-> ToInt(D.d)]
\* result is a valid duration whose sign is the sign of the input (or zero)
SignLaw == IsRound => ValidDur(R) /\ (DurSign(R) = 0 \/ DurSign(R) = Sg)
\* units above the largest and below the smallest unit are zero
WindowLaw == IsRound =>
  /\ \A i \in 1..10 : (UnitIdx(O.lg) < 11 - i) => IsZero(DurFields(R)[i])
  /\ \A i \in 1..10 : (11 - i < UnitIdx(O.sm)) => IsZero(DurFields(R)[i])
\* the rounded end point lies on the prescribed side of the exact end point
\* (stated for reference days <= 28: at a constrained month end re-adding the rounded duration is clamped - 2020-03-31 + P1M = 04-30 - and
\* says nothing about the side of the rounded end point, which is 05-01)
DirectionLaw == (IsRound /\ last.rel.d <= 28 /\ TargetOf(last.rel, R).kind = "ok") =>
  LET c == CmpDT(RTgt, Tgt) * (IF Sg < 0 THEN -1 ELSE 1)     \* > 0: moved away from the reference date
      away == IF Sg < 0 THEN "floor" ELSE "ceil"
      toward == IF Sg < 0 THEN "ceil" ELSE "floor"
  IN /\ (O.mode \in {"expand", away} => c >= 0)
     /\ (O.mode \in {"trunc", toward} => c <= 0)
\* top-heavy balance: no field could have filled the next larger unit
BalanceLaw == IsRound =>
  LET f == F(R) IN
  /\ (O.lg = "year" /\ O.sm # "year" => AbsI(f.mo) < 12)
  /\ (UnitIdx(O.lg) >= 9 /\ UnitIdx(O.sm) <= 7 => AbsI(f.d) <= 31)
  /\ (O.lg = "week" /\ UnitIdx(O.sm) <= 7 => AbsI(f.d) < 7)
  /\ (UnitIdx(O.lg) >= 7 => Lt(Abs(TimeNs(R)), DayNsBig))
\* the smallest-unit field is a multiple of the increment, unless rounding up filled the next larger unit (then it was carried away to zero)
MultipleLaw == IsRound =>
  LET v == DurFields(R)[11 - UnitIdx(O.sm)] IN
  \/ O.sm = O.lg \/ UnitIdx(O.sm) <= 6
  \/ IsZero(FloorDivMod(v, FromInt(O.inc)).r)
\* Candidate law, REFUTED by TLC on the model and therefore not checked: rounding an already rounded duration again is not
\* the identity (2019-12-31, -P29D, floor to weeks with largest year -> -P5W; re-measuring -P5W gives -P1M5D -> a different result).
IdempotentRefuted == (IsRound /\ O.inc = 1) => RoundRel(last.rel, R, O.lg, O.sm, O.inc, O.mode) = last.out
\* compare orders durations as the date-times they lead to; antisymmetric; consistent with totals in days
NearLaw == (last.op = "compare" /\ last.out.kind = "ok" /\ last.b \in NearDays(last.rel, last.dur)) =>
  \* the middle one of the three day-equivalents compares equal
  (TargetOf(last.rel, last.b) = TargetOf(last.rel, last.dur)) = (last.out.val = 0)
CompareLaw == (last.op = "compare" /\ last.out.kind = "ok") =>
  /\ CompareRel(last.rel, last.b, last.dur) = Ok(-last.out.val)
  /\ (last.out.val = 0) = (TargetOf(last.rel, last.dur) = TargetOf(last.rel, last.b))
\* total in a unit with largest = smallest = that unit, truncated, equals the rounded duration's field
\* (stated for reference days <= 28, for the reason given at DirectionLaw: from a constrained month end the end point can lie beyond
\* the bracket Temporal builds - 2020-03-31 + P30DT23:59:59.999999999 is past 03-31 + P1M = 04-30T00:00 while counting 0 whole months)
TotalLaw == (last.op = "total" /\ last.out.kind = "ok" /\ last.rel.d <= 28) =>
  LET q == TruncDivMod(last.out.val.n, last.out.val.d).q
      rr == RoundRel(last.rel, last.dur, last.u, last.u, 1, "trunc")
  IN last.u \in DateUnits /\ rr.kind = "ok" => DurFields(rr.val)[11 - UnitIdx(last.u)] = q
=============================================================================
