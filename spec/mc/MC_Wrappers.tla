----------------------------- MODULE MC_Wrappers -----------------------------
(* Bounded instance of Wrappers: receivers x rows of the method table x argument pools.              *)
(* TLC checks the observability invariants and emits one CASE line per (receiver, row, arguments).   *)
EXTENDS Wrappers, Json

RECURSIVE Concat(_)
Concat(ss) == IF ss = <<>> THEN <<>> ELSE Head(ss) \o Concat(Tail(ss))
Map(A, F(_)) == [i \in 1..Len(A) |-> F(A[i])]
X2(A, Bs, F(_, _)) == Concat([i \in 1..Len(A) |-> [j \in 1..Len(Bs) |-> F(A[i], Bs[j])]])
X3(A, Bs, Cs, F(_, _, _)) == Concat([i \in 1..Len(A) |-> X2(Bs, Cs, LAMBDA b, c : F(A[i], b, c))])
Take(A, n) == SubSeq(A, 1, Min2(n, Len(A)))

(* ------------------------------------------------------------------ values *)
T0 == Midnight
T1 == TimeRec(13, 14, 15, 16, 17, 18)
T2 == TimeRec(23, 59, 59, 999, 999, 999)
T3 == TimeRec(2, 30, 0, 0, 0, 0)
Sub1 == 16017018                                     \* .016017018
D1 == Date(2021, 3, 9)           \* month 3, day 9, Tuesday (2), day of year 68, week 10, 31 days, 365 days: all distinct
D2 == Date(2021, 1, 3)           \* ISO week 53 of 2020
D3 == Date(2024, 12, 30)         \* ISO week 1 of 2025, leap year
D4 == Date(2020, 2, 29)
D5 == Date(-44, 3, 15)
D6 == Date(200000, 11, 23)
D7 == Date(2021, 1, 31)
WithCal(r, c) == r @@ [cal |-> c]

\* zoned receiver from local wall-clock fields in a fixed-offset zone
ZL(dt, t, sub, off, tz) == LET x == t.h * 3600 + t.mi * 60 + t.s - off
                           IN [day |-> DFC(dt) + (x \div 86400), sec |-> x % 86400, ns |-> sub, tz |-> tz, off |-> off]
\* zoned receiver from UTC fields in a named zone (the spec does not compute its fields)
ZN(dt, t, sub, tz) == [day |-> DFC(dt), sec |-> t.h * 3600 + t.mi * 60 + t.s, ns |-> sub, tz |-> tz]
Rc(t, v, p) == [t |-> t, v |-> v, primary |-> p]

ZPrimary == <<ZL(D1, T1, Sub1, 0, "+00:00"), ZL(D1, T1, Sub1, 19800, "+05:30"), ZL(D1, T1, Sub1, -28800, "-08:00"),
              [day |-> DFC(D1), sec |-> 47655, ns |-> Sub1, tz |-> "UTC", off |-> 0]>>
ZOtherQ == <<ZL(D2, T2, 999999999, 50400, "+14:00"), ZL(D3, T0, 1, -60, "-00:01"), ZL(D5, T1, Sub1, 3600, "+01:00"),
             ZN(D1, T1, Sub1, "America/New_York"), ZN(Date(2021, 7, 1), T2, 999999999, "Europe/London"),
             ZN(Date(2021, 3, 14), TimeRec(6, 59, 59, 0, 0, 0), 999999999, "America/New_York"),
             \* 01:30:00 EST on the day the clocks go back: the second occurrence of that wall-clock time
             ZN(Date(2021, 11, 7), TimeRec(6, 30, 0, 0, 0, 0), 0, "America/New_York"),
             WithCal(ZL(D1, T1, Sub1, 0, "+00:00"), "hebrew")>>
ZOtherT == <<ZL(D4, T1, Sub1, -43200, "-12:00"), ZL(D6, T1, Sub1, 0, "+00:00"), ZL(D7, T2, 5, 34200, "+09:30"),
             ZN(D1, T1, Sub1, "Asia/Kolkata"), ZN(Date(2021, 10, 3), T1, Sub1, "Australia/Lord_Howe"),
             ZN(Date(1900, 1, 1), T1, Sub1, "Europe/Amsterdam"), ZN(Date(2021, 11, 7), TimeRec(5, 30, 0, 0, 0, 0), 0, "America/New_York"),
             ZN(D1, T1, Sub1, "UTC"), WithCal(ZL(D1, T1, Sub1, 32400, "+09:00"), "japanese"), WithCal(ZN(D1, T1, Sub1, "Asia/Tokyo"), "buddhist")>>

DatesQ == <<D2, D3, D4, D5, D7, WithCal(D1, "hebrew"), WithCal(D1, "buddhist")>>
DatesT == <<D6, Date(-271821, 4, 19), Date(275760, 9, 13), WithCal(D1, "japanese"), WithCal(D4, "gregory"), WithCal(D1, "roc")>>
Dt1 == DtRec(D1, T1)
DtsQ == <<DtRec(D2, T2), DtRec(D3, T0), DtRec(Date(2021, 3, 14), T3), DtRec(Date(2021, 11, 7), TimeRec(1, 30, 0, 0, 0, 0)), WithCal(Dt1, "hebrew")>>
DtsT == <<DtRec(D4, T1), DtRec(D5, T1), DtRec(D6, T2), DtRec(Date(-271821, 4, 19), TimeRec(0, 0, 0, 0, 0, 1)), DtRec(Date(275760, 9, 13), T2),
          WithCal(Dt1, "buddhist"), WithCal(Dt1, "japanese")>>
TimesR == <<T2, T0, T3>>
Dur1 == DurOfSeq(<<1, 2, 3, 4, 5, 6, 7, 8, 9, 10>>)             \* P1Y2M3W4DT5H6M7.008009010S: ten distinct fields
DursR == <<NegDur(Dur1), ZeroDur, DurOfSeq(<<0, 0, 0, 0, 36, 0, 0, 0, 0, 0>>), DurOfSeq(<<0, 0, 0, 1, 0, 0, 0, 0, 0, 0>>),
           DurOfSeq(<<0, 0, 0, 0, 0, 0, 0, 0, 0, 2000000000>>),
           \* days and time part of opposite signs: the value of the unchecked constructor from_day_and_time (built through it in both layers)
           DurOfSeq(<<0, 0, 0, 2, -5, -30, 0, 0, 0, 0>>), DurOfSeq(<<0, 0, 0, -1, 0, 0, 1, 0, 0, 0>>)>>
I1 == EParts(DFC(D1), 47655, Sub1)
InstsQ == <<I1, EParts(0, 0, 0), EParts(-1, 86399, 999999995), EParts(-300000, 5, 7), EParts(100000000, 0, 0), EParts(-100000000, 0, 0)>>
\* -2^64 ns = day -213504, second 1526, ns 290448384: exactly -2^64, one above (not expressible as sign-and-magnitude (high, low)), one below
InstsT == <<EParts(-213504, 1526, 290448384), EParts(-213504, 1526, 290448385), EParts(-213504, 1526, 290448383), EParts(99999999, 86399, 999999999), EParts(0, 0, 1)>>
YmsR == <<[y |-> 2021, m |-> 3], [y |-> 2024, m |-> 2], [y |-> -44, m |-> 12], [y |-> 12345, m |-> 6], [y |-> 2021, m |-> 3, cal |-> "gregory"]>>
MdsR == <<[m |-> 3, d |-> 9], [m |-> 2, d |-> 29], [m |-> 12, d |-> 31, y |-> 2021], [m |-> 3, d |-> 9, cal |-> "gregory"]>>
CalsR == <<"iso8601", "gregory", "hebrew", "japanese", "buddhist">>
TDursR == <<<<5, 6, 7, 8, 9, 10>>, <<-5, -6, -7, -8, -9, -10>>, <<0, 0, 0, 0, 0, 0>>, <<25, 0, 0, 0, 0, 0>>>>
DDursR == <<<<1, 2, 3, 4>>, <<-1, -2, -3, -4>>, <<0, 0, 0, 0>>>>

Tier(q, t) == q \o t
ReceiversOf(thorough) ==
  <<[t |-> "none"]>>
  \o Map(ZPrimary, LAMBDA z : Rc("zdt", z, TRUE)) \o Map(IF thorough THEN ZOtherQ \o ZOtherT ELSE ZOtherQ, LAMBDA z : Rc("zdt", z, FALSE))
  \o <<Rc("date", D1, TRUE)>> \o Map(IF thorough THEN DatesQ \o DatesT ELSE DatesQ, LAMBDA d : Rc("date", d, FALSE))
  \o <<Rc("dt", Dt1, TRUE)>> \o Map(IF thorough THEN DtsQ \o DtsT ELSE DtsQ, LAMBDA d : Rc("dt", d, FALSE))
  \o <<Rc("time", T1, TRUE)>> \o Map(TimesR, LAMBDA d : Rc("time", d, FALSE))
  \o <<Rc("dur", Dur1, TRUE)>> \o Map(DursR, LAMBDA d : Rc("dur", d, FALSE))
  \o Map(IF thorough THEN InstsQ \o InstsT ELSE InstsQ, LAMBDA d : Rc("inst", d, FALSE))
  \o <<Rc("ym", YmsR[1], TRUE), Rc("md", MdsR[1], TRUE)>> \o Map(Tail(YmsR), LAMBDA d : Rc("ym", d, FALSE)) \o Map(Tail(MdsR), LAMBDA d : Rc("md", d, FALSE))
  \o Map(CalsR, LAMBDA d : Rc("cal", d, FALSE))
  \o Map(TDursR, LAMBDA d : Rc("tdur", d, FALSE)) \o Map(DDursR, LAMBDA d : Rc("ddur", d, FALSE))
QReceivers == ReceiversOf(FALSE)
TReceivers == ReceiversOf(TRUE)

(* ---------------------------------------------------------- argument pools *)
Ovfs == <<"constrain", "reject">>
WithOptOvf(A) == A \o X2(A, Ovfs, LAMBDA a, o : a @@ [ovf |-> o])
WithOvf(A) == X2(A, Ovfs, LAMBDA a, o : a @@ [ovf |-> o])
DateDurs == <<DurOfSeq(<<1, 2, 3, 4, 0, 0, 0, 0, 0, 0>>), DurOfSeq(<<0, 1, 0, 0, 0, 0, 0, 0, 0, 0>>), DurOfSeq(<<0, -1, 0, 0, 0, 0, 0, 0, 0, 0>>),
              DurOfSeq(<<0, 0, 0, 1, 25, 0, 0, 0, 0, 0>>)>>
TimeDurs == <<DurOfSeq(<<0, 0, 0, 0, 5, 6, 7, 8, 9, 10>>), DurOfSeq(<<0, 0, 0, 0, -36, 0, 0, 0, 0, 0>>), DurOfSeq(<<0, 1, 0, 0, 0, 0, 0, 0, 0, 0>>)>>
YmDurs == <<DurOfSeq(<<1, 2, 0, 0, 0, 0, 0, 0, 0, 0>>), DurOfSeq(<<0, -13, 0, 0, 0, 0, 0, 0, 0, 0>>), DurOfSeq(<<0, 0, 0, 40, 0, 0, 0, 0, 0, 0>>)>>
DursFor(t) == CASE t \in {"time", "inst"} -> TimeDurs [] t = "ym" -> YmDurs [] t = "zdt" -> <<Dur1>> \o DateDurs \o <<TimeDurs[2]>> [] OTHER -> <<Dur1>> \o DateDurs
StFor(t) ==
  CASE t \in {"date", "ym"} -> <<[largest |-> "year"], [largest |-> "month"], [largest |-> "year", smallest |-> "month", inc |-> 2, mode |-> "ceil"], [smallest |-> "hour"]>>
    [] t = "time" -> <<[largest |-> "hour"], [largest |-> "minute", smallest |-> "second", inc |-> 15, mode |-> "ceil"], [smallest |-> "year"], [mode |-> "trunc"]>>
    [] t = "inst" -> <<[largest |-> "hour"], [largest |-> "second", smallest |-> "millisecond", inc |-> 100, mode |-> "floor"], [largest |-> "day"], [mode |-> "halfEven", inc |-> 0]>>
    [] OTHER -> <<[largest |-> "year"], [largest |-> "hour"], [largest |-> "month", smallest |-> "minute", inc |-> 5, mode |-> "halfExpand"], [mode |-> "trunc"]>>
Tsros == <<[precision |-> "auto"], [precision |-> 3], [precision |-> "minute"], [precision |-> "minute", digits |-> 5], [precision |-> "auto", smallest |-> "second", mode |-> "ceil"], [precision |-> 9, mode |-> "floor"]>>
DCals == <<"auto", "always", "never", "critical">>
Ropts == <<[smallest |-> "hour"], [smallest |-> "minute", inc |-> 15, mode |-> "ceil"], [largest |-> "day", smallest |-> "second", mode |-> "floor"], [mode |-> "trunc"]>>
DurRopts == <<[smallest |-> "hour"], [largest |-> "day", smallest |-> "minute", inc |-> 15, mode |-> "halfExpand"], [largest |-> "year", smallest |-> "month", mode |-> "ceil"], [largest |-> "hour"], [mode |-> "trunc"]>>
Rels == <<NoArgs, [rel |-> [date |-> D1]], [rel |-> [date |-> D7]], [rel |-> [zdt |-> ZPrimary[2]]], [rel |-> [zdt |-> ZN(D1, T1, Sub1, "America/New_York")]],
         \* midnight before a spring-forward transition (2020-03-08T00:00-08:00): a day of 23 hours, where P1D and PT24H part ways
         [rel |-> [zdt |-> ZN(Date(2020, 3, 8), TimeRec(8, 0, 0, 0, 0, 0), 0, "America/Los_Angeles")]]>>
PDatesFull == <<[year |-> 2021, month |-> 3, day |-> 9], [year |-> 2022, month_code |-> "M04", day |-> 10], [year |-> 2021, month |-> 3, month_code |-> "M03", day |-> 9],
                [year |-> 2021, month |-> 13, day |-> 40], [month |-> 3, day |-> 9], [cal |-> "iso8601"],
                [era |-> "ce", era_year |-> 2021, month |-> 3, day |-> 9, cal |-> "gregory"], [year |-> 5781, month_code |-> "M05L", day |-> 1, cal |-> "hebrew"],
                [year |-> 2021, month_code |-> "X99", day |-> 1], [year |-> 2021, month |-> 2, day |-> 29]>>
PDatesWith == <<[day |-> 15], [month |-> 7], [year |-> 1999], [month_code |-> "M11"], [year |-> 2020, month |-> 2, day |-> 29], [day |-> 31], [cal |-> "iso8601"],
                [era |-> "bce", era_year |-> 45, cal |-> "gregory"], [month |-> 2, month_code |-> "M03"], [month_code |-> "M1"], [month_code |-> "M05L"]>>
PTimes == <<[hour |-> 1, minute |-> 2, second |-> 3, millisecond |-> 4, microsecond |-> 5, nanosecond |-> 6], [minute |-> 42], [nanosecond |-> 7, hour |-> 23],
            [empty |-> TRUE], [second |-> 61], [microsecond |-> 999]>>
PDurs == <<[years |-> 1, months |-> 2, weeks |-> 3, days |-> 4, hours |-> 5, minutes |-> 6, seconds |-> 7, milliseconds |-> 8, microseconds |-> 9, nanoseconds |-> 10],
           [years |-> 1, hours |-> 5], [minutes |-> -3], [empty |-> TRUE], [days |-> 1, seconds |-> -1], [hours |-> 0, special |-> [key |-> "hours", val |-> "NaN"]], [weeks |-> 0]>>
FDates == <<D1, D4, Date(2021, 2, 30), Date(2021, 13, 1), Date(2021, 0, 1), Date(2021, 4, 0), Date(-271821, 4, 19), Date(-271821, 4, 18), Date(275760, 9, 13), Date(275760, 9, 14),
            WithCal(D1, "hebrew"), WithCal(Date(2021, 3, 40), "gregory")>>
FDts == <<Dt1, DtRec(D4, T2), DtRec(D1, TimeRec(24, 0, 0, 0, 0, 0)), DtRec(D1, TimeRec(1, 60, 0, 0, 0, 0)), DtRec(D1, TimeRec(1, 2, 3, 1000, 0, 0)), DtRec(Date(2021, 2, 30), T1),
          DtRec(Date(-271821, 4, 19), T0), DtRec(Date(-271821, 4, 19), TimeRec(0, 0, 0, 0, 0, 1)), DtRec(Date(275760, 9, 13), T2), WithCal(Dt1, "japanese")>>
FTimes == <<T1, T2, T0, TimeRec(24, 0, 0, 0, 0, 0), TimeRec(1, 60, 0, 0, 0, 0), TimeRec(1, 2, 60, 0, 0, 0), TimeRec(1, 2, 3, 1000, 0, 0), TimeRec(1, 2, 3, 4, 1000, 0), TimeRec(1, 2, 3, 4, 5, 1000)>>
FDurs == <<<<1, 2, 3, 4, 5, 6, 7, 8, 9, 10>>, <<-1, -2, -3, -4, -5, -6, -7, -8, -9, -10>>, <<0, 0, 0, 0, 0, 0, 0, 0, 0, 0>>, <<1, 0, 0, 0, 0, 0, 0, 0, 0, -1>>,
           <<0, 0, 0, 0, 100, 200, 300, 400, 500, 600>>>>
Specials(n) == <<[at |-> n, val |-> "NaN"], [at |-> 1, val |-> "inf"], [at |-> 2, val |-> "-inf"]>>
FTDurs == <<<<5, 6, 7, 8, 9, 10>>, <<-5, -6, -7, -8, -9, -10>>, <<0, 0, 0, 0, 0, 0>>, <<1, -1, 0, 0, 0, 0>>>>
FDDurs == <<<<1, 2, 3, 4>>, <<-1, -2, -3, -4>>, <<0, 0, 0, 0>>, <<1, 0, 0, -1>>>>
\* try_new arguments: only values the FFI's sign-and-magnitude (high, low) pair can express (not -2^64 < ns < 0)
NsArgs == <<I1, EParts(0, 0, 0), EParts(0, 0, 5), EParts(0, 0, 70), EParts(-300000, 5, 7), EParts(100000000, 0, 0), EParts(100000000, 0, 1), EParts(-100000000, 0, 0), EParts(213503, 84873, 709551616), EParts(-213504, 1526, 290448384)>>
MsArgs == <<FromInt(0), FromInt(-1), EmsBig(I1), EmsBig(EParts(100000000, 0, 0)), Add(EmsBig(EParts(100000000, 0, 0)), FromInt(1)), EmsBig(EParts(-100000000, 0, 0)), EmsBig(EParts(-300000, 5, 7000000))>>
FYms == <<[y |-> 2021, m |-> 3], [y |-> 2021, m |-> 3, rd |-> 15], [y |-> 2021, m |-> 13], [y |-> 2021, m |-> 2, rd |-> 30], [y |-> 2021, m |-> 3, cal |-> "gregory"], [y |-> 275760, m |-> 9], [y |-> 275760, m |-> 10]>>
FMds == <<[m |-> 3, d |-> 9], [m |-> 2, d |-> 29], [m |-> 2, d |-> 29, y |-> 2021], [m |-> 12, d |-> 31, y |-> 2021], [m |-> 2, d |-> 30], [m |-> 13, d |-> 1], [m |-> 3, d |-> 9, cal |-> "gregory"]>>
ZSrcs == <<"2021-03-09T13:14:15.016017018+05:30[+05:30]", "2021-03-14T02:30:00-05:00[America/New_York]", "2021-11-07T01:30:00-05:00[America/New_York]",
           "2021-11-07T01:30:00-04:00[America/New_York]", "2021-03-09T13:14:15Z[Europe/London]", "2021-03-09T13:14:15+00:00[UTC][u-ca=hebrew]", "garbage", "2021-03-09T13:14:15"  >>
Disambs == <<"compatible", "earlier", "later", "reject">>
OffOpts == <<"use", "prefer", "ignore", "reject">>
RelSrcs == <<"2021-03-09", "2021-03-09T13:14:15+05:30[+05:30]", "2021-03-09T13:14:15-05:00[America/New_York]", "2021-03-09T13:14:15Z[UTC]", "2021-03-09T13:14:15-03:00[America/New_York]",
             "2021-03-09[u-ca=hebrew]", "garbage", "2021-03-09T13:14:15Z">>
\* identifiers (any case, unknown, empty) and strings that are NOT identifiers but parse as ISO 8601 / RFC 9557 texts (FromStr reads their annotation; from_utf8 does not)
CalSrcs == <<"iso8601", "gregory", "hebrew", "ISO8601", "nope", "islamic-civil", "japanese", "", "2020-01-01", "2020-01-01[u-ca=hebrew]", "12:30", "2020-01", "--01-01", "2020-01-01T00:00Z[u-ca=gregory]">>
KindSrcs == <<"iso", "gregory", "hebrew", "islamicc", "islamic-civil", "nope", "japanext", "iso8601", "ethioaa">>
Tzs == <<"+05:30", "America/New_York", "Europe/London", "UTC">>
SeqOfSet(S) == LET RECURSIVE G(_) G(T) == IF T = {} THEN <<>> ELSE LET x == CHOOSE x \in T : TRUE IN <<x>> \o G(T \ {x}) IN G(S)

OthersOf(rs, c, n) == LET same == SelectSeq(rs, LAMBDA r : r.t = c.t) IN Take(Map(same, LAMBDA r : r.v), n)

PoolOf(rs, quick, sig, c) ==
  CASE sig = "recv" -> <<NoArgs>>
    \* transitions of named zones are "Not yet implemented" in the bundled provider (out of scope): offset zones only
    [] sig = "recv+dir" -> IF Fixed(c.v) /\ c.v.tz # "UTC" THEN <<[dir |-> "next"], [dir |-> "previous"]>> ELSE <<>>
    \* (01:30:00 is the wall-clock time the fold receiver already shows: the result is the FIRST occurrence, not the receiver)
    [] sig = "recv+time" -> Map(<<T1, T2, T0, T3, TimeRec(1, 30, 0, 0, 0, 0)>>, LAMBDA t : [time |-> t])
    [] sig = "recv+time?" -> <<NoArgs>> \o Map(<<T1, T2>>, LAMBDA t : [time |-> t])
    [] sig = "recv+dur+ovf?" -> WithOptOvf(Map(DursFor(c.t), LAMBDA d : [dur |-> d]))
    [] sig = "recv+dur+ovf" -> WithOvf(Map(DursFor(c.t), LAMBDA d : [dur |-> d]))
    [] sig = "recv+dur" -> Map(DursFor(c.t), LAMBDA d : [dur |-> d])
    [] sig = "recv+tdur" -> Map(TDursR, LAMBDA d : [tdur |-> d])
    [] sig = "recv+other+st" -> X2(OthersOf(rs, c, IF quick THEN 4 ELSE 9), StFor(c.t), LAMBDA o, st : [other |-> o, st |-> st])
    [] sig = "recv+zdisplay" -> X2(X3(<<"auto", "never">>, <<"auto", "never", "critical">>, IF quick THEN <<"auto", "critical">> ELSE DCals,
                                      LAMBDA a, b, d : [doff |-> a, dtz |-> b, dcal |-> d]),
                                   IF quick THEN Take(Tsros, 3) ELSE Tsros, LAMBDA x, o : x @@ [opts |-> o])
    [] sig = "zsrc" -> X3(ZSrcs, Disambs, OffOpts, LAMBDA s, d, o : [src |-> s, dis |-> d, offopt |-> o])
    [] sig = "recv+ropts+rel" -> X2(DurRopts, Rels, LAMBDA o, r : [opts |-> o] @@ r)
    [] sig = "recv+otherdur+rel" -> X2(<<Dur1>> \o DursR, Rels, LAMBDA o, r : [other |-> o] @@ r)
    [] sig = "recv+otherdur" -> Map(<<Dur1>> \o DursR, LAMBDA o : [other |-> o])
    [] sig = "recv+unit+rel" -> X2(<<"hour", "day", "month", "nanosecond">>, Rels, LAMBDA u, r : [unit |-> u] @@ r)
    \* named zones only for instants the bundled provider answers without its known post-2037 failure (C15/C03)
    [] sig = "recv+tz?+tsro" -> X2(<<NoArgs>> \o Map(IF c.v.day < 24000 THEN Tzs ELSE <<"+05:30">>, LAMBDA z : [tz |-> z]), Tsros, LAMBDA z, o : z @@ [opts |-> o])
    [] sig = "recv+tz+dis" -> X2(Tzs, Disambs, LAMBDA z, d : [tz |-> z, dis |-> d])
    [] sig = "relsrc" -> Map(RelSrcs, LAMBDA s : [src |-> s])
    [] sig = "fdate" -> Map(FDates, LAMBDA f : [f |-> f])
    [] sig = "fdate+ovf" -> WithOvf(Map(FDates, LAMBDA f : [f |-> f]))
    [] sig = "pdate+ovf?" -> WithOptOvf(Map(PDatesFull, LAMBDA p : [partial |-> p]))
    [] sig = "recv+pdate+ovf?" -> WithOptOvf(Map(PDatesWith, LAMBDA p : [partial |-> p]))
    [] sig = "recv+pdate+ovf" -> WithOvf(Map(PDatesFull, LAMBDA p : [partial |-> p]))
    [] sig = "recv+cal" -> Map(<<"gregory", "hebrew", "iso8601", "nope">>, LAMBDA x : [cal |-> x])
    [] sig = "recv+dcal" -> Map(DCals, LAMBDA x : [dcal |-> x])
    [] sig = "fdt" -> Map(FDts, LAMBDA f : [f |-> f])
    [] sig = "pdt+ovf?" -> WithOptOvf(X2(PDatesFull, Take(PTimes, 4), LAMBDA d, t : [partial |-> [date |-> d, time |-> t]]))
    [] sig = "recv+pdt+ovf?" -> WithOptOvf(X2(PDatesWith, Take(PTimes, 4), LAMBDA d, t : [partial |-> [date |-> d, time |-> t]]))
    [] sig = "recv+ropts" -> Map(Ropts, LAMBDA o : [opts |-> o])
    [] sig = "recv+tsro+dcal" -> X2(Tsros, DCals, LAMBDA o, d : [opts |-> o, dcal |-> d])
    [] sig = "recv+tsro" -> Map(Tsros, LAMBDA o : [opts |-> o])
    [] sig = "ftime" -> Map(FTimes, LAMBDA f : [f |-> f])
    [] sig = "ptime+ovf?" -> WithOptOvf(Map(PTimes, LAMBDA p : [partial |-> p]))
    [] sig = "recv+ptime+ovf?" -> WithOptOvf(Map(PTimes, LAMBDA p : [partial |-> p]))
    [] sig = "recv+unit+inc?+mode?" -> <<[unit |-> "minute"], [unit |-> "second", inc |-> 15, mode |-> "floor"], [unit |-> "hour", mode |-> "ceil"], [unit |-> "day"],
                                         [unit |-> "millisecond", inc |-> 7], [unit |-> "minute", inc |-> 61]>>
    [] sig = "fdur" -> Map(FDurs, LAMBDA f : [f |-> f]) \o Map(Specials(10), LAMBDA sp : [f |-> FDurs[1], special |-> sp])
    [] sig = "day+ftdur" -> X2(<<4, 0, -4>>, Take(FTDurs, 4), LAMBDA d, t : [day |-> d, time |-> t]) \o <<[day |-> 0, time |-> FTDurs[1], special |-> [val |-> "NaN"]]>>
    [] sig = "pdur" -> Map(PDurs, LAMBDA p : [partial |-> p])
    [] sig = "pdur-finite" -> Map(SelectSeq(PDurs, LAMBDA p : Plain(p)), LAMBDA p : [partial |-> p])
    [] sig = "ftdur" -> Map(FTDurs, LAMBDA f : [f |-> f]) \o Map(Specials(6), LAMBDA sp : [f |-> FTDurs[1], special |-> sp])
    [] sig = "fddur" -> Map(FDDurs, LAMBDA f : [f |-> f]) \o Map(Specials(4), LAMBDA sp : [f |-> FDDurs[1], special |-> sp])
    [] sig = "ns" -> Map(NsArgs, LAMBDA n : [ns |-> n])
    [] sig = "ms" -> Map(MsArgs, LAMBDA n : [ms |-> n])
    [] sig = "fym+ovf" -> WithOvf(Map(FYms, LAMBDA f : [f |-> f]))
    [] sig = "fmd+ovf" -> WithOvf(Map(FMds, LAMBDA f : [f |-> f]))
    [] sig = "recv+date" -> Map(<<D1, D2, D3, D4, D5>>, LAMBDA d : [date |-> d])
    [] sig = "recv+date+dur+ovf" -> WithOvf(X2(<<D1, D7>>, DateDurs, LAMBDA d, u : [date |-> d, dur |-> u]))
    [] sig = "recv+date+other+unit" -> X3(<<D1, D7>>, <<D3, D5>>, <<"day", "week", "month", "year", "hour">>, LAMBDA d, o, u : [date |-> d, other |-> o, unit |-> u])
    [] sig = "kind" -> Map(SeqOfSet(Variants("AnyCalendarKind")), LAMBDA k : [kind |-> k])
    [] sig = "calsrc" -> Map(CalSrcs, LAMBDA s : [src |-> s])
    [] sig = "kindsrc" -> Map(KindSrcs, LAMBDA s : [src |-> s])
    [] \E e \in EnumNames : sig = "variant:" \o e -> LET en == CHOOSE x \in EnumNames : sig = "variant:" \o x IN Map(SeqOfSet(Variants(en)), LAMBDA v : [variant |-> v])

QPool(sig, c) == PoolOf(QReceivers, TRUE, sig, c)
TPool(sig, c) == PoolOf(TReceivers, FALSE, sig, c)

(* ------------------------------------------- observability of the chosen receivers *)
\* every two different numeric accessors of a type are separated by some spec-computable receiver of the model
\* (year vs year_of_week needs a date whose ISO week year differs: D2, D3)
SepFields(t) == LET fs == NumFields(t) IN {fs[i] : i \in 1..Len(fs)} \cup (IF t \in {"zdt", "dt", "date"} THEN {"year_of_week"} ELSE {})
Separable(rs) == \A t \in {"zdt", "dt", "date", "time", "dur", "ym", "md"} : \A f, g \in SepFields(t) :
                    f # g => \E i \in 1..Len(rs) : rs[i].t = t /\ SpecComputable(rs[i]) /\ FieldVal(t, rs[i].v, f) # FieldVal(t, rs[i].v, g)
ASSUME Separable(QReceivers)
\* every receiver type with numeric accessors has a primary receiver (DistinctFields is not vacuous)
ASSUME \A t \in {"zdt", "dt", "date", "time", "dur", "ym", "md"} : \E i \in 1..Len(QReceivers) : QReceivers[i].t = t /\ QReceivers[i].primary
\* model negative control: 2021-03-04T05:06:07.008009010 has day = day of week = 4 and second = days in week = 7
BadReceivers == <<Rc("zdt", ZL(Date(2021, 3, 4), TimeRec(5, 6, 7, 8, 9, 10), 8009010, 0, "+00:00"), TRUE)>>
ASSUME EnumTablesOK /\ TableOK
ASSUME \A r \in Table : PrintT("ROW " \o ToJson([name |-> r.name, twin |-> r.twin, recv |-> r.recv, sig |-> r.sig, gen |-> TRUE, why |-> ""]))
ASSUME \A r \in Excluded : PrintT("ROW " \o ToJson([name |-> r.name, twin |-> "", recv |-> "", sig |-> "", gen |-> FALSE, why |-> r.why]))
ASSUME \A e \in EnumNames : PrintT("ENUM " \o ToJson([enum |-> e, variants |-> EnumTable[e]]))

CaseOf == [op |-> "Wrap." \o last.wrapper, cls |-> last.cls, args |-> last.args, out |-> last.expected]
Emit == last.op = "none" \/ PrintT("CASE " \o ToJson(CaseOf))
=============================================================================
