---------------------------- MODULE MC_TzifReal ----------------------------
(***************************************************************************)
(* Provider instance over REAL zone tables (spec -> impl): the harness      *)
(* writes the tables of a few zones (read with the tzif crate's parser) and *)
(* a workload of queries to the JSON file named by the environment variable *)
(* C15_WORKLOAD; TLC computes what the data say for every query, explores   *)
(* every order of the workload against a fresh provider (Once = TRUE) and   *)
(* prints                                                                   *)
(*   CASE {"op":"Tzdb.expect", "cls", "args":{"id","q":{"op","args"}}, "out"}   one per query            *)
(*   CASE {"op":"Tzdb.session", "args":{"order":[id, ...]}}                      one per complete order   *)
(* The harness replays every order against a fresh FsTzdbProvider: each     *)
(* answer must be the expected one, whatever came before.                   *)
(***************************************************************************)
EXTENDS TzifClasses, TLC, Json, IOUtils

Input == JsonDeserialize(IOEnv.C15_WORKLOAD)
ZoneIdx == 1..Len(Input.zones)
RealDisk == [z \in {Input.zones[i].zone : i \in ZoneIdx} |->
               LET i == CHOOSE i \in ZoneIdx : Input.zones[i].zone = z
               IN IF Input.zones[i].found THEN Input.zones[i].table ELSE Missing]
\* a query carries its index in the workload file and the sub-second part (passed through)
RealWorkload == {[id |-> i, zone |-> Input.queries[i].zone, kind |-> Input.queries[i].kind,
                  at |-> P(Input.queries[i].at.d, Input.queries[i].at.s), ns |-> Input.queries[i].at.ns] : i \in 1..Len(Input.queries)}

ASSUME \A z \in DOMAIN RealDisk : IsMissing(RealDisk[z]) \/ WellFormed(RealDisk[z])

Ns3(ns) == [ms |-> ns \div 1000000, us |-> (ns \div 1000) % 1000, ns |-> ns % 1000]
ArgsOf(q) ==
  IF q.kind = "offset" THEN [zone |-> q.zone, t |-> [d |-> q.at.d, s |-> q.at.s, ns |-> q.ns]]
  ELSE LET c == CivilFromDays(q.at.d)  f == Ns3(q.ns)
       IN [zone |-> q.zone, local |-> [y |-> c.y, m |-> c.m, d |-> c.d, h |-> q.at.s \div 3600, mi |-> (q.at.s \div 60) % 60,
                                        s |-> q.at.s % 60, ms |-> f.ms, us |-> f.us, ns |-> f.ns]]
OutOf(q, ans) == IF ans.kind # "ok" THEN [kind |-> "err"]
                 ELSE IF q.kind = "offset" THEN OkV([off |-> ans.val])
                 ELSE OkV({[d |-> p.d, s |-> p.s, ns |-> q.ns] : p \in ans.val})
ClsOfQ(q) == IF ~OnDisk(disk, q.zone) THEN "unknown-zone"
             ELSE IF q.kind = "offset" THEN OffsetCls(disk[q.zone], q.at, q.ns)
             ELSE LocalCls(disk[q.zone], q.at, q.ns)
OpOf(q) == IF q.kind = "offset" THEN "Tzdb.offset" ELSE "Tzdb.local"

NW == Cardinality(RealWorkload)
Emit ==
  /\ (Len(hist) = 1 =>
        PrintT("CASE " \o ToJson([op |-> "Tzdb.expect", cls |-> ClsOfQ(hist[1]),
                                  args |-> [id |-> hist[1].id, q |-> [op |-> OpOf(hist[1]), args |-> ArgsOf(hist[1])]],
                                  out |-> OutOf(hist[1], DataSay(disk, hist[1]))])))
  /\ (Len(hist) = NW =>
        PrintT("CASE " \o ToJson([op |-> "Tzdb.session", args |-> [order |-> [i \in 1..NW |-> hist[i].id]]])))
=============================================================================
