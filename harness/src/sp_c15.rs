//! Special runner for C15 (spec -> impl for the provider's history independence).
//!
//! `tvh c15 workload <out.json> <tier>`  writes the tables of a few zones (tzif crate's parser only) and a
//!     small workload of queries; TLC (spec/mc/MC_TzifReal.tla) computes the expected answers and enumerates
//!     every order of the workload.
//! `tvh c15 perms <cases.ndjson> <report.ndjson>`  replays every generated order against a fresh
//!     FsTzdbProvider: each answer must be what the specification computed from the table, and the same
//!     question must get the same answer in every order (reported with cls "order-dependent" otherwise).
use crate::gen::*;
use crate::ops_tzdb;
use serde_json::{json, Value};
use std::collections::BTreeMap;
use std::io::{BufRead, BufReader, Write};
use std::sync::atomic::{AtomicUsize, Ordering};
use std::sync::Mutex;

fn at(sec: i64, ns: i64) -> Value { json!({"d": sec.div_euclid(86_400), "s": sec.rem_euclid(86_400), "ns": ns}) }

fn workload(out: &str, tier: &str) {
    let zones = ["America/New_York", "Europe/Dublin", "Asia/Kolkata", "Nowhere/Land"];
    let mut zs = Vec::new();
    let mut tabs: BTreeMap<&str, Value> = BTreeMap::new();
    for z in zones {
        match ops_tzdb::read_table(z) {
            Ok(t) => { zs.push(json!({"zone": z, "found": true, "table": t.clone()})); tabs.insert(z, t); }
            Err(_) => zs.push(json!({"zone": z, "found": false})),
        }
    }
    let day = |y, m, d| days_from_civil(y, m, d) * 86_400;
    // the last table transition of Dublin before 2001 (a transition second: the new type must be in force)
    let dub = tabs["Europe/Dublin"]["trans"].as_array().unwrap();
    let t2001 = day(2001, 1, 1);
    let tr = dub.iter().map(|t| t["d"].as_i64().unwrap() * 86_400 + t["s"].as_i64().unwrap()).filter(|&t| t < t2001).last().unwrap();
    let mut qs = vec![
        json!({"zone": "America/New_York", "kind": "offset", "at": at(day(2020, 7, 1) + 43_200, 0)}),
        json!({"zone": "America/New_York", "kind": "local", "at": at(day(2021, 3, 14) + 9_000, 0)}),       // 02:30 in the spring gap
        json!({"zone": "Europe/Dublin", "kind": "offset", "at": at(tr, 0)}),
        json!({"zone": "Europe/Dublin", "kind": "local", "at": at(day(2020, 7, 1) + 43_200, 500_000_000)}),
        json!({"zone": "Asia/Kolkata", "kind": "offset", "at": at(day(1900, 1, 1), 0)}),
        json!({"zone": "Asia/Kolkata", "kind": "local", "at": at(day(2020, 1, 1), 0)}),
        json!({"zone": "Nowhere/Land", "kind": "offset", "at": at(1_000_000_000, 0)}),
    ];
    if tier == "thorough" {
        // one second (less a nanosecond) before New York's first transition: a query that panics today stays in the history
        let ny = &tabs["America/New_York"]["trans"][0];
        qs.push(json!({"zone": "America/New_York", "kind": "offset", "at": at(ny["d"].as_i64().unwrap() * 86_400 + ny["s"].as_i64().unwrap() - 1, 999_999_999)}));
    }
    std::fs::write(out, serde_json::to_string(&json!({"zones": zs, "queries": qs})).unwrap()).expect("write workload");
    println!("{}", json!({"zones": zones.len(), "queries": qs.len()}));
}

/// expected vs observed: any error kind is "err"; instants are compared as a set
fn agrees(exp: &Value, obs: &Value) -> bool {
    let ok_ = obs["kind"].as_str().unwrap_or("");
    match exp["kind"].as_str().unwrap_or("") {
        "err" => matches!(ok_, "generic" | "range" | "type"),
        "ok" => ok_ == "ok" && match (exp["val"].as_array(), obs["val"].as_array()) {
            (Some(a), Some(b)) => { let mut x: Vec<String> = a.iter().map(|v| v.to_string()).collect(); let mut y: Vec<String> = b.iter().map(|v| v.to_string()).collect();
                                    x.sort(); x.dedup(); y.sort(); y.dedup(); x == y }
            _ => exp["val"] == obs["val"],
        },
        _ => false,
    }
}

fn perms(cases: &str, report: &str) {
    let mut expect: BTreeMap<i64, Value> = BTreeMap::new();
    let mut orders: Vec<Vec<i64>> = Vec::new();
    for l in BufReader::new(std::fs::File::open(cases).expect("cases")).lines() {
        let l = l.unwrap();
        if l.trim().is_empty() { continue; }
        let c: Value = serde_json::from_str(&l).expect("case json");
        match c["op"].as_str().unwrap() {
            "Tzdb.expect" => { expect.insert(c["args"]["id"].as_i64().unwrap(), c); }
            "Tzdb.session" => orders.push(c["args"]["order"].as_array().unwrap().iter().map(|x| x.as_i64().unwrap()).collect()),
            o => panic!("unexpected case op {}", o),
        }
    }
    for o in &orders { for id in o { assert!(expect.contains_key(id), "order mentions query {} without expectation", id); } }
    let next = AtomicUsize::new(0);
    // (query id, observed) -> (count, first session index)
    let seen = Mutex::new(BTreeMap::<(i64, String), (usize, usize)>::new());
    let calls = AtomicUsize::new(0);
    let threads = std::thread::available_parallelism().map(|x| x.get()).unwrap_or(4).min(8);
    std::thread::scope(|s| {
        for _ in 0..threads {
            s.spawn(|| {
                let mut local: BTreeMap<(i64, String), (usize, usize)> = BTreeMap::new();
                loop {
                    let i = next.fetch_add(1, Ordering::Relaxed);
                    if i >= orders.len() { break; }
                    let steps: Vec<Value> = orders[i].iter().map(|id| expect[id]["args"]["q"].clone()).collect();
                    let out = ops_tzdb::exec("Tzdb.session", &json!({"steps": steps})).expect("session op");
                    let outs = out["val"].as_array().expect("session outcomes");
                    calls.fetch_add(outs.len(), Ordering::Relaxed);
                    for (k, o) in outs.iter().enumerate() {
                        let e = local.entry((orders[i][k], o.to_string())).or_insert((0, i));
                        e.0 += 1;
                    }
                }
                let mut g = seen.lock().unwrap();
                for (k, v) in local { let e = g.entry(k).or_insert((0, v.1)); e.0 += v.0; e.1 = e.1.min(v.1); }
            });
        }
    });
    let seen = seen.into_inner().unwrap();
    let mut f = std::fs::File::create(report).expect("report");
    let mut lines = 0;
    let mut per_q: BTreeMap<i64, Vec<(&String, usize, usize)>> = BTreeMap::new();
    for ((id, obs), (cnt, first)) in &seen { per_q.entry(*id).or_default().push((obs, *cnt, *first)); }
    let mut samples = Vec::new();
    for (id, obs) in &per_q {
        let c = &expect[id];
        let q = &c["args"]["q"];
        if obs.len() > 1 {
            writeln!(f, "{}", json!({"i": id, "op": q["op"], "cls": "order-dependent", "args": q["args"], "expected": "the same answer in every order",
                                     "observed": {"kind": "differs", "val": obs.iter().map(|(o, n, s)| json!({"answer": serde_json::from_str::<Value>(o).unwrap(), "times": n, "first_order": orders[*s]})).collect::<Vec<_>>()}})).unwrap();
            lines += 1;
        }
        for (o, n, s) in obs {
            let o: Value = serde_json::from_str(o).unwrap();
            if samples.len() < 3 { samples.push(json!({"op": q["op"], "args": q["args"], "expected": c["out"], "observed": o, "orders": n})); }
            if !agrees(&c["out"], &o) {
                writeln!(f, "{}", json!({"i": id, "op": q["op"], "cls": c["cls"], "args": q["args"], "expected": c["out"], "observed": o, "count": n, "first_order": orders[*s]})).unwrap();
                lines += 1;
            }
        }
    }
    println!("{}", json!({"cases": orders.len(), "calls": calls.load(Ordering::Relaxed), "queries": expect.len(), "mismatches": lines, "samples": samples}));
}

pub fn main(a: &[String]) {
    match a.first().map(|s| s.as_str()) {
        Some("workload") => workload(&a[1], a.get(2).map(|s| s.as_str()).unwrap_or("quick")),
        Some("perms") => perms(&a[1], &a[2]),
        _ => { eprintln!("usage: tvh c15 workload <out.json> <tier> | perms <cases> <report>"); std::process::exit(2); }
    }
}
