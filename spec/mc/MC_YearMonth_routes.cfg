SPECIFICATION Spec
CONSTANTS
  YmRoutes <- QYmRoutes
  MdRoutes <- QMdRoutes
  CmpRoutes <- QCmpRoutes
  MdCmpRoutes <- QMdCmpRoutes
  Receivers <- NoSet
  Others <- NoSet
  DurSet <- NoSet
  Settings <- NoSet
  OneStep = TRUE
INVARIANTS Canonical ExplicitKept ValuesInLimits EqualFieldsEqualValue MdEqualFieldsEqualValue StringsHideReference AddAsDateArithmetic AddInverse UnitsRefused DiffLaws MonthDayDays
CHECK_DEADLOCK FALSE
