------------------------ MODULE DateTimeArithMachine ------------------------
(* Session state machine over DateTimeArith and the laws of C05. *)
EXTENDS DateTimeArith
CONSTANTS DTs, Durs, Largests, RoundOpts, OneStep     \* Durs: Dur10 records; RoundOpts: [u, inc, mode]
VARIABLES cur, last
vars == <<cur, last>>
None == [op |-> "none"]
Init == cur \in DTs /\ last = None
Move(o) == IF o.kind = "ok" THEN o.val ELSE cur
AddAct(D, ovf) == LET o == AddDT(cur, D, ovf) IN last' = [op |-> "add", a |-> cur, dur |-> D, ovf |-> ovf, out |-> o] /\ cur' = Move(o)
SubAct(D, ovf) == LET o == SubDT(cur, D, ovf) IN last' = [op |-> "subtract", a |-> cur, dur |-> D, ovf |-> ovf, out |-> o] /\ cur' = Move(o)
UntilAct(b, lg) == last' = [op |-> "until", a |-> cur, b |-> b, lg |-> lg, out |-> UntilDT(cur, b, lg)] /\ cur' = b
SinceAct(b, lg) == last' = [op |-> "since", a |-> cur, b |-> b, lg |-> lg, out |-> SinceDT(cur, b, lg)] /\ cur' = b
\* (mode "absent": the call names no rounding mode - halfExpand)
RoundAct(o) == LET r == RoundDT(cur, o.u, o.inc, IF o.mode = "absent" THEN "halfExpand" ELSE o.mode) IN last' = [op |-> "round", a |-> cur, o |-> o, out |-> r] /\ cur' = Move(r)
Next == /\ (OneStep => last = None)
        /\ \/ \E D \in Durs, ovf \in {"constrain", "reject"} : AddAct(D, ovf) \/ SubAct(D, ovf)
           \/ \E b \in DTs, lg \in Largests : UntilAct(b, lg) \/ SinceAct(b, lg)
           \/ \E o \in RoundOpts : RoundAct(o)
Spec == Init /\ [][Next]_vars

CurOK == ValidDT(cur) /\ InDTRange(cur)
DiffLaws == last.op \in {"until", "since"} =>
  LET D == last.out.val   U == IF last.op = "since" THEN NegDur(D) ELSE D
  IN /\ SignUniform(D)
     \* add() maps the start exactly onto the end (duration fields are doubles: exact whenever every field is within 2^53)
     /\ ((\A i \in 1..10 : Le(Abs(DurFields(D)[i]), TwoTo53)) => AddDT(last.a, U, "constrain") = Ok(last.b))
     \* the time part is shorter than one day whenever the largest unit is a date unit
     /\ (last.lg \in DateUnits => Lt(Abs(TimeNs(U)), DayNsBig))
     /\ (last.lg \in DateUnits /\ CmpDT(last.a, last.b) # 0 => DurSign(U) = CmpDT(last.b, last.a))
     \* a time largest unit gives the exact elapsed time
     /\ (last.lg \in TimeUnits => ~HasDateUnits(D))
AddLaws == last.op \in {"add", "subtract"} =>
  /\ (last.out.kind = "ok" => ValidDT(last.out.val) /\ InDTRange(last.out.val))
  /\ (last.op = "subtract" => last.out = AddDT(last.a, NegDur(last.dur), last.ovf))
RoundLaws == (last.op = "round" /\ last.out.kind = "ok") =>
  LET r == last.out.val
      n == IncNs(last.o.inc, last.o.u)
      delta == Add(Mul(DayNsBig, FromInt(DFC(r.date) - DFC(last.a.date))), Sub(TimeNsOf(r.time), TimeNsOf(last.a.time)))
  IN /\ ValidDT(r) /\ InDTRange(r)
     /\ IsZero(FloorDivMod(TimeNsOf(r.time), n).r)           \* a multiple counted from midnight
     /\ Lt(Abs(delta), n)                                    \* adjacent to the exact value
     /\ (IsZero(FloorDivMod(TimeNsOf(last.a.time), n).r) => r = last.a)
=============================================================================
