SPECIFICATION Spec
INVARIANTS WellFormed Boundary
CHECK_DEADLOCK FALSE
