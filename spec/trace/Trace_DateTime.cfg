SPECIFICATION TSpec
INVARIANT CursorOK
POSTCONDITION Accepted
CHECK_DEADLOCK FALSE
