--------------------------- MODULE Trace_DateTime ---------------------------
(* impl -> spec for PlainDateTime sessions (C05). *)
EXTENDS DateTimeArith, TraceBase
VARIABLES l, cur
tvars == <<l, cur>>
Nil == [date |-> [y |-> 0, m |-> 0, d |-> 0]]
E == Rec[l]
\* flat JSON record <-> [date, time]
In(j) == DT(Date(j.y, j.m, j.d), Time(j.h, j.mi, j.s, j.ms, j.us, j.ns))
DTJ(x) == [y |-> x.date.y, m |-> x.date.m, d |-> x.date.d, h |-> x.time.h, mi |-> x.time.mi, s |-> x.time.s, ms |-> x.time.ms, us |-> x.time.us, ns |-> x.time.ns]
OutJ(o) == IF o.kind = "ok" THEN Ok(DTJ(o.val)) ELSE o
Ovf(a) == Get(a, "ovf", "constrain")
St(e) == Get(e.args, "st", [x |-> 0])
Largest(e) == LET u == Get(St(e), "largest", "auto") IN IF u = "auto" THEN "day" ELSE u
Expected(e) ==
  CASE e.op = "PlainDateTime.add" -> OutJ(AddDT(In(e.args.recv), e.args.dur, Ovf(e.args)))
    [] e.op = "PlainDateTime.subtract" -> OutJ(SubDT(In(e.args.recv), e.args.dur, Ovf(e.args)))
    [] e.op = "PlainDateTime.until" -> UntilDT(In(e.args.recv), In(e.args.other), Largest(e))
    [] e.op = "PlainDateTime.since" -> SinceDT(In(e.args.recv), In(e.args.other), Largest(e))
    [] e.op = "PlainDateTime.round" -> OutJ(RoundDT(In(e.args.recv), St(e).smallest, St(e).inc, St(e).mode))
Moves(e) == e.op \in {"PlainDateTime.add", "PlainDateTime.subtract"}
Chained(e) == e.op = "PlainDateTime.round" \/ cur = Nil \/ In(e.args.recv) = cur
Ord(a, b) == IF CmpDT(a, b) < 0 THEN "fwd" ELSE IF CmpDT(a, b) > 0 THEN "back" ELSE "same"
TimeOrd(a, b) == LET c == Cmp(TimeNsOf(a.time), TimeNsOf(b.time)) IN IF c < 0 THEN "t<" ELSE IF c > 0 THEN "t>" ELSE "t="
ClsOf(e) ==
  CASE e.op \in {"PlainDateTime.add", "PlainDateTime.subtract"} ->
         Ovf(e.args) \o (IF e.args.recv.d > 28 THEN "/eom" ELSE "/mid") \o (IF Lt(MulSmall(Pow10(18), 9), Abs(TimeNs(e.args.dur))) THEN "/time-above-2^63" ELSE "/time-below-2^63")
           \o (IF ~SmallDateDur(e.args.dur) THEN "/huge-date" ELSE "/small-date")
    [] e.op \in {"PlainDateTime.until", "PlainDateTime.since"} -> Largest(e) \o "/" \o Ord(In(e.args.recv), In(e.args.other)) \o "/" \o TimeOrd(In(e.args.recv), In(e.args.other))
    [] e.op = "PlainDateTime.round" -> St(e).smallest \o "/" \o RoundCls(RoundQuantity(In(e.args.recv).time, St(e).smallest), IncNs(St(e).inc, St(e).smallest)) \o "/" \o St(e).mode
    [] OTHER -> "-"
TInit == l = 1 /\ cur = Nil
Good(e) == Chained(e) /\ Expected(e) = e.out
TNext == /\ l <= NEv /\ l' = l + 1
         /\ \/ E.op = "reset" /\ cur' = Nil
            \/ E.op # "reset" /\ Good(E) /\ cur' = IF Moves(E) /\ E.out.kind = "ok" THEN In(E.out.val) ELSE cur
            \/ E.op # "reset" /\ ~Good(E) /\ Report(l, E.op, ClsOf(E), IF Chained(E) THEN Expected(E) ELSE "session-chain-broken", E.out)
               /\ cur' = IF Moves(E) /\ E.out.kind = "ok" /\ "y" \in DOMAIN E.out.val /\ ValidDT(In(E.out.val)) /\ InDTRange(In(E.out.val)) THEN In(E.out.val) ELSE Nil
TSpec == TInit /\ [][TNext]_tvars
CursorOK == cur = Nil \/ (ValidDT(cur) /\ InDTRange(cur))
=============================================================================
