//! C01: tile the TLC-generated 400-year cycle table over Temporal's whole date range and
//! step the real API through every day of the selected cycles.
//! (The tiling is justified by the periodicity lemma proved on the model: Gregorian!Cycle / Apalache Periodic.)
use crate::js::big;
use crate::ops::{utc, FS};
use serde_json::{json, Value};
use std::collections::BTreeMap;
use std::io::{BufRead, BufReader, Write};
use std::str::FromStr;
use std::sync::atomic::{AtomicI64, AtomicU64, Ordering};
use std::sync::Mutex;
use temporal_rs::options::*;
use temporal_rs::primitive::FiniteF64;
use temporal_rs::*;

#[derive(Clone, Copy)]
struct Row { n: i64, y: i64, m: u8, d: u8, dow: u16, doy: u16, dim: u16, diy: u16, leap: bool, week: u16, wyoff: i64 }

const CYCLE: i64 = 146_097;
const MIN_DAY: i64 = -100_000_001;
const MAX_DAY: i64 = 100_000_000;
const NS_DAY: i128 = 86_400_000_000_000;

struct Sink { counts: BTreeMap<String, u64>, recs: Vec<Value> }

fn pad_year(y: i64) -> String {
    if (0..=9999).contains(&y) { format!("{:04}", y) } else if y < 0 { format!("-{:06}", -y) } else { format!("+{:06}", y) }
}

pub fn main(a: &[String]) {
    let table = &a[0];
    let tier = a[1].as_str();
    let report = &a[2];
    let mut rows: Vec<Row> = BufReader::new(std::fs::File::open(table).expect("table")).lines().map(|l| {
        let v: Value = serde_json::from_str(&l.unwrap()).unwrap();
        let g = |k: &str| v[k].as_i64().unwrap();
        Row { n: g("n"), y: g("y"), m: g("m") as u8, d: g("d") as u8, dow: g("dow") as u16, doy: g("doy") as u16,
              dim: g("dim") as u16, diy: g("diy") as u16, leap: v["leap"].as_bool().unwrap(), week: g("week") as u16, wyoff: g("wyoff") }
    }).collect();
    rows.sort_by_key(|r| r.n);
    rows.dedup_by_key(|r| r.n);
    assert!(rows.len() as i64 == CYCLE + 1, "expected one full cycle plus one row, got {}", rows.len());
    for w in rows.windows(2) { assert!(w[1].n == w[0].n + 1); }
    let base = rows[0].n;
    // cycles k such that [base + k*CYCLE, base + (k+1)*CYCLE) meets [MIN_DAY-2, MAX_DAY+2]
    let kmin = (MIN_DAY - 2 - base).div_euclid(CYCLE);
    let kmax = (MAX_DAY + 2 - base).div_euclid(CYCLE);
    let all: Vec<i64> = (kmin..=kmax).collect();
    let ks: Vec<i64> = if tier == "thorough" { all.clone() } else {
        let k0 = |y: i64| (y - rows[0].y).div_euclid(400);
        let mut s: Vec<i64> = all.iter().cloned().filter(|k| {
            *k <= kmin + 1 || *k >= kmax - 1 || (k - kmin) % 97 == 0
                || [k0(0), k0(-1), k0(1600), k0(1970), k0(2400), k0(9999), k0(10000)].contains(k)
        }).collect();
        s.dedup();
        s
    };
    let next = AtomicI64::new(0);
    let days = AtomicU64::new(0);
    let calls = AtomicU64::new(0);
    let sink = Mutex::new(Sink { counts: BTreeMap::new(), recs: Vec::new() });
    let threads = std::thread::available_parallelism().map(|x| x.get()).unwrap_or(4).min(16);
    let one_day = Duration::new(z(), z(), z(), FiniteF64::from(1i8), z(), z(), z(), z(), z(), z()).unwrap();
    let mut day_settings = DifferenceSettings::default();
    day_settings.largest_unit = Some(Unit::Day);
    std::thread::scope(|s| {
        for _ in 0..threads {
            s.spawn(|| {
                loop {
                    let i = next.fetch_add(1, Ordering::Relaxed);
                    if i as usize >= ks.len() { break; }
                    let k = ks[i as usize];
                    let (nd, nc) = walk_cycle(&rows, k, &one_day, day_settings, &sink);
                    days.fetch_add(nd, Ordering::Relaxed);
                    calls.fetch_add(nc, Ordering::Relaxed);
                }
            });
        }
    });
    let sink = sink.into_inner().unwrap();
    let mut f = std::fs::File::create(report).expect("report");
    for m in &sink.recs { writeln!(f, "{}", m).unwrap(); }
    let r0 = rows[59];
    println!("{}", json!({"cases": days.load(Ordering::Relaxed), "api_calls": calls.load(Ordering::Relaxed), "cycles": ks.len(), "cycles_total": all.len(),
        "exhaustive": ks.len() == all.len(), "mismatch_counts": sink.counts,
        "samples": [{"cycle_row": {"n": r0.n, "y": r0.y, "m": r0.m, "d": r0.d, "dow": r0.dow, "doy": r0.doy, "week": r0.week, "wyoff": r0.wyoff},
                     "tiled_as": format!("y+400k, n+146097k for k in {}..={}", kmin, kmax)}]}));
}

fn z() -> FiniteF64 { FiniteF64::from(0i8) }

fn walk_cycle(rows: &[Row], k: i64, one_day: &Duration, day_settings: DifferenceSettings, sink: &Mutex<Sink>) -> (u64, u64) {
    let mut local: Vec<(String, Value)> = Vec::new();
    let mut nd = 0u64;
    let mut nc = 0u64;
    macro_rules! bad { ($check:expr, $r:expr, $y:expr, $n:expr, $exp:expr, $obs:expr) => {
        local.push(($check.to_string(), json!({"op": format!("C01.{}", $check), "cls": $check,
            "args": {"y": $y, "m": $r.m, "d": $r.d, "n": $n}, "expected": $exp, "observed": $obs})))
    } }
    FS.with(|prov| {
    for i in 0..(CYCLE as usize) {
        let r = rows[i];
        let nx = rows[i + 1];
        let y = r.y + 400 * k;
        let n = r.n + CYCLE * k;
        let ny = nx.y + 400 * k;
        if n < MIN_DAY - 2 || n > MAX_DAY + 2 { continue; }
        nd += 1;
        let in_range = n >= MIN_DAY && n <= MAX_DAY;
        let res = std::panic::catch_unwind(|| PlainDate::try_new(y as i32, r.m, r.d, Calendar::default()));
        nc += 1;
        let date = match res {
            Err(_) => { bad!("try_new", r, y, n, json!(if in_range {"ok"} else {"range"}), json!("panic")); continue; }
            Ok(Err(e)) => {
                if in_range || crate::proj::kind_of(&e) != "range" { bad!("try_new", r, y, n, json!(if in_range {"ok"} else {"range"}), json!(crate::proj::kind_of(&e))); }
                continue;
            }
            Ok(Ok(d)) => { if !in_range { bad!("outside", r, y, n, json!("range"), json!("ok")); continue; } d }
        };
        let body = std::panic::catch_unwind(std::panic::AssertUnwindSafe(|| {
            let mut out: Vec<(&'static str, Value, Value)> = Vec::new();
            let mut c = 0u64;
            macro_rules! chk { ($name:expr, $obs:expr, $exp:expr) => { c += 1; let o = $obs; let e = $exp; if o != e { out.push(($name, json!(e), json!(o))); } } }
            chk!("fields.ymd", (date.year() as i64, date.month(), date.day()), (y, r.m, r.d));
            chk!("fields.dow", date.day_of_week(), r.dow);
            chk!("fields.doy", date.day_of_year(), r.doy);
            chk!("fields.week", date.week_of_year().ok().flatten(), Some(r.week));
            chk!("fields.wy", date.year_of_week().ok().flatten().map(|v| v as i64), Some(y + r.wyoff));
            chk!("fields.diw", date.days_in_week().ok(), Some(7u16));
            chk!("fields.dim", date.days_in_month(), r.dim);
            chk!("fields.diy", date.days_in_year(), r.diy);
            chk!("fields.miy", date.months_in_year(), 12u16);
            chk!("fields.leap", date.in_leap_year(), r.leap);
            chk!("kernel.to_days", temporal_rs::verif::epoch_days_from_gregorian_date(y as i32, r.m, r.d) as i64, n);
            chk!("kernel.from_days", { let t = temporal_rs::verif::ymd_from_epoch_days(n as i32); (t.0 as i64, t.1, t.2) }, (y, r.m, r.d));
            chk!("kernel.from_ms", { let t = temporal_rs::verif::ymd_from_epoch_milliseconds(n * 86_400_000 + 86_399_999); (t.0 as i64, t.1, t.2) }, (y, r.m, r.d));
            chk!("kernel.dim", temporal_rs::verif::iso_days_in_month(y as i32, r.m) as u16, r.dim);
            if r.m == 1 && r.d == 1 { chk!("kernel.days_for_year", temporal_rs::verif::epoch_days_for_year(y as i32) as i64, n); }
            chk!("kernel.year_of_ms", temporal_rs::verif::epoch_time_to_epoch_year(n * 86_400_000) as i64, y);
            // the last day of a month: day numbers beyond it are clamped to it under constrain and refused under reject
            if r.d as u16 == r.dim {
                for dd in (r.d + 1)..=31u8 {
                    match PlainDate::new_with_overflow(y as i32, r.m, dd, Calendar::default(), ArithmeticOverflow::Constrain) {
                        Ok(dc) => { chk!("constrain.dim", (dc.year() as i64, dc.month(), dc.day()), (y, r.m, r.d)); }
                        Err(e) => out.push(("constrain.dim", json!("ok"), json!(crate::proj::kind_of(&e)))),
                    }
                    match PlainDate::new_with_overflow(y as i32, r.m, dd, Calendar::default(), ArithmeticOverflow::Reject) {
                        Ok(dr) => out.push(("reject.dim", json!("range"), json!([dr.year(), dr.month() as i32, dr.day() as i32]))),
                        Err(e) => { chk!("reject.dim", crate::proj::kind_of(&e), "range"); }
                    }
                }
            }
            // from the first and the last day of every month: k days back and forth for every k up to two months (the day reached comes
            // from the table: carries over one and two month boundaries of every length, in both directions)
            if (r.d == 1 || r.d as u16 == r.dim) && i >= 62 && i + 62 < rows.len() {
                for off in 2..=62usize {
                    let dk = Duration::new(z(), z(), z(), FiniteF64::from(off as u8), z(), z(), z(), z(), z(), z()).unwrap();
                    let (fw, bw) = (rows[i + off], rows[i - off]);     // the same copy of the cycle: 62 rows away from both ends
                    if n + (off as i64) <= MAX_DAY { match date.add(&dk, None) {
                        Ok(d2) => { chk!("addk", (d2.year() as i64, d2.month(), d2.day()), (fw.y + 400 * k, fw.m, fw.d)); }
                        Err(e) => out.push(("addk", json!("ok"), json!(crate::proj::kind_of(&e)))) } }
                    if n - (off as i64) >= MIN_DAY { match date.subtract(&dk, None) {
                        Ok(d2) => { chk!("subk", (d2.year() as i64, d2.month(), d2.day()), (bw.y + 400 * k, bw.m, bw.d)); }
                        Err(e) => out.push(("subk", json!("ok"), json!(crate::proj::kind_of(&e)))) } }
                }
            }
            // the same month and day in years that differ by a power of two or a cycle length, then this day again: an answer kept
            // between calls under a shortened key (a memo of the last week computation, say) shows as a wrong second answer
            if r.d == 1 || r.d == 15 || r.d as u16 == r.dim {
                for dy in [1i64, 4, 100, 256, 400, 65536, -65536, 131072] {
                    let y2 = y + dy;
                    if r.m == 2 && r.d == 29 { continue; }
                    let n2 = crate::gen::days_from_civil(y2, r.m as i64, r.d as i64);
                    if n2 < MIN_DAY || n2 > MAX_DAY { continue; }
                    let i2 = (n2 - rows[0].n).rem_euclid(CYCLE) as usize;
                    let k2 = (n2 - rows[0].n).div_euclid(CYCLE);
                    let r2 = rows[i2];
                    assert!(r2.y + 400 * k2 == y2 && r2.m == r.m && r2.d == r.d, "HARNESS: cycle table lookup");
                    if let Ok(d2) = PlainDate::try_new(y2 as i32, r.m, r.d, Calendar::default()) {
                        chk!("alias.week", (d2.week_of_year().ok().flatten(), d2.year_of_week().ok().flatten().map(|v| v as i64), d2.day_of_week(), d2.day_of_year(), d2.days_in_month(), d2.in_leap_year()),
                             (Some(r2.week), Some(y2 + r2.wyoff), r2.dow, r2.doy, r2.dim, r2.leap));
                        chk!("alias.again", (date.week_of_year().ok().flatten(), date.year_of_week().ok().flatten().map(|v| v as i64), date.day_of_week(), date.day_of_year(), date.days_in_month(), date.in_leap_year()),
                             (Some(r.week), Some(y + r.wyoff), r.dow, r.doy, r.dim, r.leap));
                    }
                }
            }
            // successor
            if n < MAX_DAY {
                match date.add(one_day, None) {
                    Ok(d2) => { chk!("add1", (d2.year() as i64, d2.month(), d2.day()), (ny, nx.m, nx.d));
                        match date.until(&d2, day_settings) {
                            Ok(du) => { chk!("until1", (du.days().as_inner(), du.years().as_inner(), du.months().as_inner(), du.weeks().as_inner(), du.hours().as_inner()), (1.0, 0.0, 0.0, 0.0, 0.0)); }
                            Err(e) => out.push(("until1", json!("ok"), json!(crate::proj::kind_of(&e)))),
                        }
                        match d2.since(&date, day_settings) {
                            Ok(du) => { chk!("since1", du.days().as_inner(), 1.0); }
                            Err(e) => out.push(("since1", json!("ok"), json!(crate::proj::kind_of(&e)))),
                        }
                        chk!("compare", (date.compare_iso(&d2) as i8, d2.compare_iso(&date) as i8, date.compare_iso(&date) as i8), (-1i8, 1i8, 0i8));
                        match d2.subtract(one_day, None) {
                            Ok(d3) => { chk!("sub1", (d3.year() as i64, d3.month(), d3.day()), (y, r.m, r.d)); }
                            Err(e) => out.push(("sub1", json!("ok"), json!(crate::proj::kind_of(&e)))),
                        }
                    }
                    Err(e) => out.push(("add1", json!("ok"), json!(crate::proj::kind_of(&e)))),
                }
            } else {
                c += 1;
                match date.add(one_day, None) { Err(e) if crate::proj::kind_of(&e) == "range" => {}, Err(e) => out.push(("add1.max", json!("range"), json!(crate::proj::kind_of(&e)))), Ok(_) => out.push(("add1.max", json!("range"), json!("ok"))) }
            }
            // date -> UTC instant
            let ns = n as i128 * NS_DAY;
            let inst_ok = n > MIN_DAY; // midnight of the first day lies below the date-time / instant limits
            match date.to_zoned_date_time_with_provider(utc(), None, prov) {
                Ok(zdt) => { if inst_ok { chk!("epochNs", zdt.epoch_nanoseconds().as_i128().to_string(), ns.to_string()); } else { out.push(("epochNs.min", json!("range"), json!(zdt.epoch_nanoseconds().as_i128().to_string()))); } }
                Err(e) => { if inst_ok || crate::proj::kind_of(&e) != "range" { out.push(("epochNs", json!(if inst_ok {"ok"} else {"range"}), json!(crate::proj::kind_of(&e)))); } }
            }
            c += 1;
            // UTC instant -> date (start and last nanosecond of the day)
            if inst_ok {
                for off in [0i128, NS_DAY - 1] {
                    if ns + off > MAX_DAY as i128 * NS_DAY { continue; }
                    match Instant::try_new(ns + off) {
                        Ok(inst) => match inst.to_zoned_date_time_iso(utc()).to_plain_date_with_provider(prov) {
                            Ok(d4) => { chk!("fromInstant", (d4.year() as i64, d4.month(), d4.day()), (y, r.m, r.d)); }
                            Err(e) => out.push(("fromInstant", json!("ok"), json!(crate::proj::kind_of(&e)))),
                        },
                        Err(e) => out.push(("fromInstant.new", json!("ok"), json!(crate::proj::kind_of(&e)))),
                    }
                }
                chk!("epochMs", Instant::try_new(ns).map(|i| i.epoch_milliseconds()).ok(), Some(n * 86_400_000));
            }
            // strings at month starts
            if r.d == 1 && inst_ok {
                let s = format!("{}-{:02}-{:02}T00:00:00Z", pad_year(y), r.m, r.d);
                match Instant::from_str(&s) {
                    Ok(inst) => { chk!("instantStr.parse", inst.as_i128().to_string(), ns.to_string());
                        match inst.to_ixdtf_string_with_provider(None, ToStringRoundingOptions::default(), prov) {
                            Ok(s2) => { chk!("instantStr.format", s2, s.clone()); }
                            Err(e) => out.push(("instantStr.format", json!("ok"), json!(crate::proj::kind_of(&e)))),
                        } }
                    Err(e) => out.push(("instantStr.parse", json!(s), json!(crate::proj::kind_of(&e)))),
                }
                let ds = format!("{}-{:02}-{:02}", pad_year(y), r.m, r.d);
                chk!("dateStr.format", date.to_ixdtf_string(DisplayCalendar::Auto), ds.clone());
                match PlainDate::from_str(&ds) { Ok(d5) => { chk!("dateStr.parse", d5.compare_iso(&date) as i8, 0i8); }, Err(e) => out.push(("dateStr.parse", json!("ok"), json!(crate::proj::kind_of(&e)))) }
            }
            (out, c)
        }));
        match body {
            Ok((out, c)) => { nc += c; for (name, e, o) in out { bad!(name, r, y, n, e, o); } }
            Err(_) => { bad!("panic", r, y, n, json!("no panic"), json!("panic")); }
        }
    }
    });
    if !local.is_empty() {
        let mut s = sink.lock().unwrap();
        for (check, rec) in local {
            let c = s.counts.entry(check).or_insert(0);
            *c += 1;
            if *c <= 25 { s.recs.push(rec); }
        }
    }
    (nd, nc)
}
