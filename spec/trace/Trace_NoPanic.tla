---------------------------- MODULE Trace_NoPanic ----------------------------
(* impl -> spec for C03: every logged outcome must be in the alphabet of explainable outcomes. *)
EXTENDS TemporalBase, TraceBase
VARIABLES l
tvars == <<l>>
E == Rec[l]
ProviderBacked == {"RealZone.probe", "TzifBytes.probe", "Parse.ZonedDateTime", "Parse.TimeZone", "Tzdb.table", "Tzdb.offset", "Tzdb.local"}
Alphabet(e) == IF e.op \in ProviderBacked THEN OkKinds \cup {"generic"} ELSE OkKinds
Good(e) == e.out.kind \in Alphabet(e)
ClsOf(e) == IF e.op = "RealZone.probe" THEN e.args.call \o "/" \o e.args.lbl ELSE IF e.op = "TzifBytes.probe" THEN "corrupted-file/" \o e.out.phase ELSE "outcome"
TInit == l = 1
TNext == /\ l <= NEv /\ l' = l + 1
         /\ \/ E.op = "reset"
            \/ E.op # "reset" /\ Good(E)
            \/ E.op # "reset" /\ ~Good(E) /\ Report(l, E.op, ClsOf(E), "an outcome in {ok, type, range, syntax}", E.out)
TSpec == TInit /\ [][TNext]_tvars
=============================================================================
