----------------------------- MODULE Trace_Date -----------------------------
(* impl -> spec for PlainDate sessions (C01, C04): every logged call must be a step of DateArith. *)
EXTENDS DateArithMachine, TraceBase

VARIABLE l
tvars == <<cur, last, l>>
Nil == [y |-> 0, m |-> 0, d |-> 0]

E == Rec[l]
Ovf(a) == Get(a, "ovf", "constrain")
Largest(st) == LET u == Get(st, "largest", "auto") IN IF u = "auto" THEN "day" ELSE u

DayNsBig(n) == MulSmall(MulSmall(MulSmall(MulSmall(FromInt(n), 86400), 1000), 1000), 1000)
FloorDays(b) == FloorDivSmall(FloorDivSmall(FloorDivSmall(FloorDivSmall(b, 1000).q, 1000).q, 1000).q, 86400).q

\* what the specification says the outcome of the logged call is
Expected(e) ==
  CASE e.op = "PlainDate.add" -> AddDate(e.args.recv, e.args.dur, Ovf(e.args))
    [] e.op = "PlainDate.subtract" -> SubDate(e.args.recv, e.args.dur, Ovf(e.args))
    [] e.op = "PlainDate.until" -> Ok(DiffDur(e.args.recv, e.args.other, Largest(e.args.st)))
    [] e.op = "PlainDate.since" -> Ok(SinceDur(e.args.recv, e.args.other, Largest(e.args.st)))
    [] e.op = "PlainDate.compare" -> Ok(CmpDate(e.args.recv, e.args.other))
    [] e.op = "PlainDate.epochNsUtc" -> IF DFC(e.args.recv) > MinDay THEN Ok(DayNsBig(DFC(e.args.recv))) ELSE ErrRange
    [] e.op = "Instant.toDateUtc" -> Ok(CivilFromDays(ToInt(FloorDays(e.args.ns))))

Moves(e) == e.op \in {"PlainDate.add", "PlainDate.subtract"}
Chained(e) == "recv" \in DOMAIN e.args => (cur = Nil \/ e.args.recv = cur)

ClsOf(e) ==
  CASE e.op \in {"PlainDate.add", "PlainDate.subtract"} ->
         Ovf(e.args) \o (IF e.args.recv.d > 28 THEN "/eom" ELSE "/mid")
           \o (IF ~SmallDateDur(e.args.dur) \/ ~AbsLe(DayPart(e.args.dur), CapD) THEN "/huge" ELSE "/small")
    [] e.op \in {"PlainDate.until", "PlainDate.since"} ->
         Largest(e.args.st) \o (IF e.args.recv.d > 28 THEN "/eom" ELSE "/mid") \o (IF CmpDate(e.args.recv, e.args.other) = 1 THEN "/neg" ELSE "/pos")
    [] e.op = "PlainDate.epochNsUtc" -> IF DFC(e.args.recv) = MinDay THEN "min-day" ELSE "in-range"
    [] OTHER -> "-"

TInit == l = 1 /\ cur = Nil /\ last = None

Reset == E.op = "reset" /\ cur' = Nil /\ last' = None
Match == /\ E.op # "reset" /\ Chained(E)
         /\ Expected(E) = E.out
         /\ cur' = IF Moves(E) THEN (IF E.out.kind = "ok" THEN E.out.val ELSE cur) ELSE cur
         /\ last' = [op |-> E.op]
Mismatch == /\ E.op # "reset"
            /\ ~(Chained(E) /\ Expected(E) = E.out)
            /\ Report(l, E.op, ClsOf(E), IF Chained(E) THEN Expected(E) ELSE "session-chain-broken", E.out)
            /\ cur' = IF Moves(E) /\ E.out.kind = "ok" THEN E.out.val ELSE Nil
            /\ last' = [op |-> "mismatch"]
TNext == l <= NEv /\ l' = l + 1 /\ (Reset \/ Match \/ Mismatch)
TSpec == TInit /\ [][TNext]_tvars

\* state invariant evaluated at every step of the trace: the cursor is always a well-formed in-range date
CursorOK == cur = Nil \/ (ValidDate(cur) /\ InDateRange(DFC(cur)))
=============================================================================
