----------------------------- MODULE Trace_Tzif -----------------------------
(***************************************************************************)
(* impl -> spec for the bundled tz provider (C15). Every `Tzdb.table` event *)
(* (the TZif file as read by the tzif crate's parser) is loaded into the    *)
(* state variable `disk`; every `Tzdb.offset` / `Tzdb.local` event must be  *)
(* the Query step of Tzif for the current provider state (`cache`), every   *)
(* `Tzdb.check` event must agree with the name list of the `Tzdb.names`     *)
(* event. A disagreement prints a MISMATCH line with the class label        *)
(* computed here from the table, and the trace goes on.                     *)
(* `Tzdb.define` events introduce synthetic files (zones synth/<n>); their  *)
(* tables arrive by `Tzdb.table` events like those of real files.           *)
(***************************************************************************)
EXTENDS TzifClasses, TraceBase

CONSTANT Classes      \* TRUE: also print the class label of every accepted query (coverage per class)
VARIABLE l
tvars == <<disk, cache, hist, last, l>>
E == Rec[l]

(* ---------------- events -> queries ---------------- *)
IsQuery(e) == e.op \in {"Tzdb.offset", "Tzdb.local"}
LocalPoint(a) == P(DaysFromCivil(a.y, a.m, a.d), a.h * 3600 + a.mi * 60 + a.s)
SubNs(e) == IF e.op = "Tzdb.offset" THEN e.args.t.ns
            ELSE e.args.local.ms * 1000000 + e.args.local.us * 1000 + e.args.local.ns
QOf(e) == IF e.op = "Tzdb.offset" THEN [zone |-> e.args.zone, kind |-> "offset", at |-> P(e.args.t.d, e.args.t.s)]
          ELSE [zone |-> e.args.zone, kind |-> "local", at |-> LocalPoint(e.args.local)]
\* the logged outcome in the specification's vocabulary: any error is a failure; the sub-second part of a
\* wall-clock reading is carried over unchanged to every instant; the list of instants is read as a set
ErrKinds == {"generic", "range", "type"}
Obs(e) == IF e.out.kind \in ErrKinds THEN Fail
          ELSE IF e.out.kind # "ok" THEN [kind |-> e.out.kind]
          ELSE IF e.op = "Tzdb.offset" THEN OkV(e.out.val.off)
          ELSE IF \A i \in 1..Len(e.out.val) : e.out.val[i].ns = SubNs(e) /\ e.out.val[i].s \in 0..(DaySec - 1)
               THEN OkV({Pt(e.out.val[i]) : i \in 1..Len(e.out.val)})
               ELSE [kind |-> "bad-subsecond"]
Ascending(e) == e.op # "Tzdb.local" \/ e.out.kind # "ok"
                \/ \A i \in 1..(Len(e.out.val) - 1) : Lt(Pt(e.out.val[i]), Pt(e.out.val[i + 1]))
\* expected outcome in the log's vocabulary (for the MISMATCH line)
Show(e, x) == IF x.kind # "ok" THEN x
              ELSE IF e.op = "Tzdb.offset" THEN OkV([off |-> x.val])
              ELSE OkV({[d |-> p.d, s |-> p.s, ns |-> SubNs(e)] : p \in x.val})

\* instants a provider can return at all: -10^8 days .. +10^8 days (inclusive); a wall-clock reading whose candidate instant lies
\* outside cannot be answered - the query must fail (and, C15/C20: leave nothing behind in the provider)
InstantOK(p, sub) == (p.d >= -100000000 /\ p.d < 100000000) \/ (p.d = 100000000 /\ p.s = 0 /\ sub = 0)
Unanswerable(e, x) == e.op = "Tzdb.local" /\ x.kind = "ok" /\ \E p \in x.val : ~InstantOK(p, SubNs(e))

(* ---------------- class labels: TzifClasses ---------------- *)
ClsOf(e) ==
  IF IsQuery(e) THEN
    (IF ~OnDisk(disk, e.args.zone) THEN "unknown-zone"
     ELSE IF e.op = "Tzdb.offset" THEN OffsetCls(disk[e.args.zone], QOf(e).at, SubNs(e))
     ELSE IF QOf(e).at.d >= 99999998 \/ QOf(e).at.d <= -99999998 THEN "local/at-the-instant-limits"
     ELSE LocalCls(disk[e.args.zone], QOf(e).at, SubNs(e)))
  ELSE "-"

(* ---------------- identifiers ---------------- *)
Upper == <<"A", "B", "C", "D", "E", "F", "G", "H", "I", "J", "K", "L", "M", "N", "O", "P", "Q", "R", "S", "T", "U", "V", "W", "X", "Y", "Z">>
Lower == <<"a", "b", "c", "d", "e", "f", "g", "h", "i", "j", "k", "l", "m", "n", "o", "p", "q", "r", "s", "t", "u", "v", "w", "x", "y", "z">>
LowerChar(c) == IF \E i \in 1..26 : Upper[i] = c THEN Lower[CHOOSE i \in 1..26 : Upper[i] = c] ELSE c
RECURSIVE JoinFrom(_, _, _)
JoinFrom(cs, i, lower) == IF i > Len(cs) THEN "" ELSE (IF lower THEN LowerChar(cs[i]) ELSE cs[i]) \o JoinFrom(cs, i + 1, lower)
LowerJoin(cs) == JoinFrom(cs, 1, TRUE)
Join(cs) == JoinFrom(cs, 1, FALSE)
NameEvents == {i \in 1..NEv : Rec[i].op = "Tzdb.names"}
NameLists == UNION {{Rec[i].out.val[j] : j \in 1..Len(Rec[i].out.val)} : i \in NameEvents}
ExactNames == {Join(n) : n \in NameLists}
LowerNames == {LowerJoin(n) : n \in NameLists}
\* "Factory" is tzdata's placeholder for "no zone configured" (abbreviation -00), listed as a Zone in tzdata.zi but
\* not a zone of any place; whether it counts as an IANA name is left open: either answer is accepted
Unasserted(cs) == LowerJoin(cs) = "factory"
CheckCls(cs) == IF Join(cs) \in ExactNames THEN "check/iana-name/as-listed"
                ELSE IF LowerJoin(cs) \in LowerNames THEN "check/iana-name/other-case"
                ELSE "check/non-name"

(* ---------------- steps ---------------- *)
TInit == l = 1 /\ disk = Empty /\ cache = Empty /\ hist = <<>> /\ last = None

Reset == /\ E.op = "reset"
         /\ disk' = Empty /\ cache' = Empty /\ hist' = <<>> /\ last' = [op |-> "reset"]
Fresh == E.op = "Tzdb.fresh" /\ NewProvider
\* the file as the parser read it becomes part of the environment
LoadTable ==
  /\ E.op = "Tzdb.table"
  /\ IF E.out.kind = "ok"
     THEN /\ disk' = Put(disk, E.args.zone, E.out.val)
          /\ IF WellFormed(E.out.val) THEN TRUE ELSE Report(l, E.op, "table-ill-formed", "well-formed table", E.args.zone)
     ELSE disk' = Put(disk, E.args.zone, Missing)
  /\ last' = [op |-> "table"]
  /\ UNCHANGED <<cache, hist>>
\* synthetic TZif data: the bytes written from the logged description become a file of the environment; what they say is
\* taken from the following `Tzdb.table` event (the parser's reading), not from the description. The library's own parser
\* may reject them (an error), nothing else
Define ==
  /\ E.op = "Tzdb.define"
  /\ IF E.out.kind \in {"ok"} \cup ErrKinds THEN TRUE
     ELSE Report(l, E.op, "define", "accepted or rejected with an error", E.out)
  /\ last' = [op |-> "define"] /\ UNCHANGED <<disk, cache, hist>>
QueryStep ==
  /\ IsQuery(E)
  /\ LET q == QOf(E)
         known == E.args.zone \in DOMAIN disk
         exp0 == IF known THEN AnswerIn(cache, disk, q) ELSE [kind |-> "no-table-event"]
         exp == IF Unanswerable(E, exp0) THEN Fail ELSE exp0
         obs == Obs(E)
     IN IF known /\ exp = obs
        THEN /\ QueryWith(q, exp0) /\ (IF Classes THEN PrintT("CLS " \o ClsOf(E)) ELSE TRUE)
             \* the right set of instants, but not in ascending order (GetNamedTimeZoneEpochNanoseconds; disambiguation
             \* takes the first as the earlier and the last as the later): one class, whatever the position
             /\ (IF Ascending(E) THEN TRUE ELSE Report(l, E.op, "instants-not-ascending", "the instants in ascending order", E.out))
        ELSE /\ Report(l, E.op, ClsOf(E), IF known THEN Show(E, exp) ELSE exp, E.out)
             \* resync: the provider has (or has not) read the file, whatever it answered
             /\ IF known THEN QueryWith(q, exp0) ELSE UNCHANGED <<disk, cache, hist, last>>
Names == E.op = "Tzdb.names" /\ last' = [op |-> "names"] /\ UNCHANGED <<disk, cache, hist>>
Check ==
  /\ E.op = "Tzdb.check"
  /\ LET exp == OkV(NameEvents # {} /\ LowerJoin(E.args.chars) \in LowerNames)
     IN IF exp = E.out \/ (Unasserted(E.args.chars) /\ E.out.kind = "ok")
        THEN (IF Classes THEN PrintT("CLS " \o CheckCls(E.args.chars)) ELSE TRUE)
        ELSE Report(l, E.op, CheckCls(E.args.chars), exp, E.out)
  /\ last' = [op |-> "check"] /\ UNCHANGED <<disk, cache, hist>>

TNext == l <= NEv /\ l' = l + 1 /\ (Reset \/ Fresh \/ Define \/ LoadTable \/ QueryStep \/ Names \/ Check)
TSpec == TInit /\ [][TNext]_tvars

\* evaluated at every step of the trace: the memo never differs from the files read
MemoOK == PureMemo
=============================================================================
