//! Special runner `tvh c15 ...` for C15 (things that do not fit replay/record). Fill in.
pub fn main(a: &[String]) {
    let _ = a;
    eprintln!("not implemented");
    std::process::exit(2);
}
