"""C07 — rounding picks the neighbouring multiple prescribed by the mode."""
import os
from . import lib
from .props import quick, corrupt_first, bump_big, head_of


def run(run):
    b = lib.build_harness("dev")
    q = quick(run)
    # model: declarative definition = Temporal transcription = class abstraction = BigInt version; adjacency, direction, nearest, negation symmetry
    run.mc("mc/MC_Rounding.tla", "mc/MC_Rounding_big.cfg", workers=4)
    # the whole small table, through the hook, into both instantiations of the internal rounder (the generator run re-checks all laws)
    cases, n = run.gen("mc/MC_Rounding.tla", "gen/Gen_C07_table.cfg", workers=6, name="table")
    run.replay(b, cases, label="table")
    run.negative_control_replay(b, cases, corrupt_first(lambda e: e["op"] == "Round.i128" and e["out"]["val"]["l"], lambda e: bump_big(e["out"]["val"])))
    # every rounding class at every admissible increment of every unit, through the public entry points
    cases2, n2 = run.gen("mc/MC_RoundEntry.tla", "gen/Gen_C07_entry_q.cfg" if q else "gen/Gen_C07_entry_t.cfg", workers=8, name="entry", timeout=1500)
    run.replay(b, cases2, label="entry")
    tr = run.record(b, "c07", 12000 if q else 150000)
    run.validate("trace/Trace_Time.tla", "trace/Trace_Time.cfg", tr)
    small = head_of(run, tr, 400, "c07.small.trace.ndjson")
    run.negative_control_trace("trace/Trace_Time.tla", "trace/Trace_Time.cfg", small,
                               corrupt_first(lambda e: e.get("op") == "Round.i128" and e["out"]["kind"] == "ok", lambda e: bump_big(e["out"]["val"])))
    # toString with precision + rounding mode: round by the type's rule, then print (RoundedFormat = rounding operators o writer)
    # the neighbouring multiple where whole days and a time part are rounded together (Duration.round relative to a date, PlainDateTime.until / since)
    cases4, n4 = run.gen("mc/MC_RelativeRound.tla", "gen/Gen_C07_nudge.cfg", workers=8, name="nudge", timeout=1500)
    run.replay(b, cases4, label="nudge")
    cases3, n3 = run.gen("mc/MC_RoundedFormat.tla", "gen/Gen_C07_tostring.cfg", workers=6, name="tostring")
    run.replay(b, cases3, label="tostring")
    tr2 = run.record(b, "c07f", 3000 if q else 40000, label="c07f")
    run.validate("trace/Trace_RoundedFormat.tla", "trace/Trace_RoundedFormat.cfg", tr2, label="c07f")
    small2 = head_of(run, tr2, 300, "c07f.small.trace.ndjson")

    def flip_last_digit(e):
        v = e["out"]["val"]
        k = max(i for i, ch in enumerate(v) if ch.isdigit())
        v[k] = "1" if v[k] != "1" else "2"
    run.negative_control_trace("trace/Trace_RoundedFormat.tla", "trace/Trace_RoundedFormat.cfg", small2,
                               corrupt_first(lambda e: e.get("op") == "Fmt.Instant" and e["out"]["kind"] == "ok", flip_last_digit))
    run.cov["rule"] = ("replay: one case per (x, increment, mode) of the exhaustive small table (both rounder instantiations) and per "
                      "(entry point, unit, admissible increment, sign, parity, remainder class, mode), and per (type, value, precision -2..9, mode) of toString for PlainTime, PlainDateTime, Instant, Duration, "
                      "ZonedDateTime; traces: seeded values q*n+r with ties over-sampled, through the rounding entry points and through toString")
    run.cov["distinct_nontrivial"] = run.cov["evaluations"]
    run.assumptions += ["Instant.round (and instant strings) are judged with Temporal's RoundNumberToIncrementAsIfPositive; differences (until/since) and durations with the signed RoundNumberToIncrement (DESIGN.md Appendix A)"]
