//! C18 sessions: a year-month anywhere in -271821-04 .. +275760-09 is obtained by a random route (string with or
//! without day / time, from a date, from a field record, constructor with or without an explicit reference day),
//! compared with the same month obtained by another route, then moved by random year/month durations and measured
//! against other year-months with random option sets; month-days by their routes (Feb 29, impossible days).
use super::c17::any_year;
use super::Tracer;
use crate::gen::*;
use crate::rng::Rng;
use serde_json::{json, Value};

fn year_str(y: i64) -> String { if (0..=9999).contains(&y) { format!("{:04}", y) } else { format!("{}{:06}", if y < 0 { '-' } else { '+' }, y.abs()) } }
fn dim(y: i64, m: i64) -> i64 { match m { 2 => if (y % 4 == 0 && y % 100 != 0) || y % 400 == 0 { 29 } else { 28 }, 4 | 6 | 9 | 11 => 30, _ => 31 } }

/// a year-month index (months since year 0) anywhere in the range, biased to both limits and ordinary years
fn any_ym(r: &mut Rng) -> (i64, i64) {
    let lo = -271_821 * 12 + 3; let hi = 275_760 * 12 + 8;
    let idx = match r.range(0, 9) {
        0 | 1 => lo + r.range(0, 30),
        2 | 3 => hi - r.range(0, 30),
        4..=6 => r.range(1900 * 12, 2100 * 12),
        7 => r.range(-30, 30),
        _ => r.range(lo, hi),
    };
    (idx.div_euclid(12), idx.rem_euclid(12) + 1)
}
fn ovf_s(r: &mut Rng) -> &'static str { if r.chance(1, 2) { "constrain" } else { "reject" } }

/// a route to the year-month (y, m); `wild` allows invalid ingredients (impossible days, months 0 / 13, years beyond the limits)
fn ym_route(r: &mut Rng, y: i64, m: i64, wild: bool) -> Value {
    let day = |r: &mut Rng| if wild && r.chance(1, 4) { *r.pick(&[0i64, 29, 30, 31, 32]) } else { r.range(1, dim(y, m)) };
    // a plain date of a year far outside the limits cannot be the starting point of a route; strings have at most six year digits
    let far = y.abs() > 300_000 || !(0..=99).contains(&m);
    match if far { r.range(5, 8) } else { r.range(0, 9) } {
        0 | 1 | 2 => {
            let d = if r.chance(1, 3) { 0 } else { let d = day(r); if d == 0 || d == 32 { 31 } else { d } };
            let t = if d == 0 { "" } else { *r.pick(&["", "", "T10:00", "T23:59:59.999999999", "T00:00:00", " 12:30:45.5"]) };
            let s = format!("{}-{:02}{}{}", year_str(y), m, if d == 0 { String::new() } else { format!("-{:02}", d) }, t);
            json!({"k": "str", "y": y, "m": m, "d": d, "t": t, "s": s})
        }
        3 | 4 => json!({"k": "date", "d": {"y": y, "m": m, "d": day(r).clamp(1, 31)}}),
        5 | 6 => {
            let mut p = json!({"year": y});
            match r.range(0, 2) { 0 => { p["month"] = json!(m); } 1 => { p["monthCode"] = json!(format!("M{:02}", m)); } _ => { p["month"] = json!(m); p["monthCode"] = json!(format!("M{:02}", m)); } }
            if r.chance(1, 2) { p["day"] = json!(if wild && r.chance(1, 3) { *r.pick(&[0i64, 31, 32, 255]) } else { r.range(1, dim(y, m)) }); }
            if r.chance(1, 4) { json!({"k": "partial", "p": p}) } else { json!({"k": "partial", "p": p, "ovf": ovf_s(r)}) }
        }
        7 | 8 => {
            let mut v = json!({"k": "new", "y": y, "m": m, "ovf": ovf_s(r)});
            if r.chance(1, 2) { v["rd"] = json!(if wild && r.chance(1, 3) { *r.pick(&[0i64, 31, 32, 255]) } else if r.chance(1, 3) { 1 } else { r.range(1, dim(y, m)) }); }
            v
        }
        _ if (1..=12).contains(&m) => json!({"k": "with", "recv": {"y": 2000 + r.range(0, 30), "m": m}, "p": {"year": y}, "ovf": ovf_s(r)}),
        _ => json!({"k": "new", "y": y, "m": m, "ovf": ovf_s(r)}),
    }
}
fn md_route(r: &mut Rng, m: i64, d: i64, extreme: bool) -> Value {
    match if (0..=99).contains(&m) && (0..=99).contains(&d) { r.range(0, 5) } else { r.range(3, 5) } {
        0 | 1 => {
            let f = *r.pick(&["MM-DD", "--MM-DD", "MMDD", "--MMDD", "YYYY-MM-DD"]);
            let y = *r.pick(&[1972i64, 2021, 2024, 2000, 1900]);
            let s = match f { "MM-DD" => format!("{:02}-{:02}", m, d), "--MM-DD" => format!("--{:02}-{:02}", m, d), "MMDD" => format!("{:02}{:02}", m, d),
                              "--MMDD" => format!("--{:02}{:02}", m, d), _ => format!("{}-{:02}-{:02}", year_str(y), m, d) };
            if f == "YYYY-MM-DD" { json!({"k": "str", "f": f, "y": y, "m": m, "d": d, "s": s}) } else { json!({"k": "str", "f": f, "m": m, "d": d, "s": s}) }
        }
        2 => json!({"k": "date", "d": {"y": *r.pick(&[2020i64, 2024, 2021, 1900, 2000, -4, 275760, -271821]), "m": m, "d": d}}),
        _ => {
            let mut v = json!({"k": "new", "m": m, "d": d, "ovf": ovf_s(r)});
            if r.chance(1, 3) { v["ry"] = json!(if extreme && r.chance(1, 4) { any_year(r) } else { *r.pick(&[1972i64, 2021, 2024, 1900, 2000]) }); }
            v
        }
    }
}
fn mag(r: &mut Rng, small: i64, big_: i64) -> i128 {
    (match r.range(0, 9) { 0..=2 => 0, 3..=7 => r.range(0, small), _ => r.range(0, big_) }) as i128
}

pub fn drive(t: &mut Tracer, r: &mut Rng, n: usize) {
    let settings = [json!({}), json!({"largest": "year"}), json!({"largest": "month"}), json!({"largest": "auto"}), json!({"smallest": "month"}),
        json!({"largest": "year", "smallest": "month"}), json!({"largest": "month", "smallest": "month"}),
        json!({"largest": "week"}), json!({"largest": "day"}), json!({"smallest": "week"}), json!({"smallest": "day"}), json!({"largest": "month", "smallest": "day"})];
    while t.n < n {
        if r.chance(1, 5) {
            // ---- month-days
            for _ in 0..r.range(2, 6) {
                let m = if r.chance(1, 10) { *r.pick(&[0i64, 13, 255]) } else { r.range(1, 12) };
                let d = match r.range(0, 9) { 0 => *r.pick(&[0i64, 32, 255]), 1 | 2 => *r.pick(&[28i64, 29, 30, 31]), _ => r.range(1, 28) };
                let (m, d) = if r.chance(1, 6) { (2, 29) } else { (m, d) };
                if r.chance(1, 2) { let a = md_route(r, m, d, true); t.call("PlainMonthDay.route", json!({"route": a})); }
                else { let a = md_route(r, m, d, false); let b = md_route(r, m, d, false); t.call("PlainMonthDay.cmp", json!({"a": a, "b": b})); }
            }
            t.reset();
            continue;
        }
        // ---- a year-month by some route
        let (y, m) = if r.chance(1, 12) { (any_year(r), *r.pick(&[0i64, 1, 6, 12, 13, 255])) } else { any_ym(r) };
        let wild = r.chance(1, 6);
        let route = ym_route(r, y, m, wild);
        if r.chance(1, 3) && (1..=12).contains(&m) && y.abs() <= 300_000 {
            let other = ym_route(r, y, m, false);
            t.call("PlainYearMonth.cmp", json!({"a": route.clone(), "b": other}));
        }
        let out = t.call("PlainYearMonth.route", json!({"route": route}));
        if out["kind"] != "ok" { t.reset(); continue; }
        let mut cur = json!({"y": out["val"]["y"], "m": out["val"]["m"], "rd": out["val"]["rd"]});
        for _ in 0..r.range(3, 12) {
            let (cy, cm) = (cur["y"].as_i64().unwrap(), cur["m"].as_i64().unwrap());
            if r.chance(1, 2) {
                let sg: i128 = if r.chance(1, 2) { 1 } else { -1 };
                let (yy, mo) = match r.range(0, 9) {
                    0 => (mag(r, 600_000, 4_294_967_295), mag(r, 7_000_000, 4_294_967_295)),
                    1 | 2 => (mag(r, 550_000, 550_000), mag(r, 6_600_000, 6_600_000)),
                    _ => (mag(r, 5, 300), mag(r, 40, 4000)),
                };
                let dur = if r.chance(1, 60) { date_dur(sg * yy.min(3), sg * mo.min(30), sg * r.range(0, 2) as i128, sg * r.range(1, 40) as i128) } else { date_dur(sg * yy, sg * mo, 0, 0) };
                let out = t.call(if r.chance(1, 2) { "PlainYearMonth.add" } else { "PlainYearMonth.subtract" }, json!({"recv": cur, "dur": dur, "ovf": ovf_s(r)}));
                if out["kind"] == "ok" { cur = out["val"].clone(); }
            } else {
                let (oy, om) = match r.range(0, 5) {
                    0 | 1 => { let i = cy * 12 + cm - 1 + r.range(-40, 40); (i.div_euclid(12), i.rem_euclid(12) + 1) }
                    2 => (cy, cm),
                    _ => any_ym(r),
                };
                let mut other = json!({"y": oy, "m": om});
                if r.chance(1, 8) { other["rd"] = json!(r.range(1, dim(oy, om))); }
                let in_limits = |y: i64, m: i64| (y > -271_821 || (y == -271_821 && m >= 4)) && (y < 275_760 || (y == 275_760 && m <= 9));
                if !in_limits(oy, om) { continue; }
                t.call(if r.chance(1, 2) { "PlainYearMonth.until" } else { "PlainYearMonth.since" }, json!({"recv": cur, "other": other, "st": r.pick(&settings).clone()}));
            }
        }
        t.reset();
    }
}
