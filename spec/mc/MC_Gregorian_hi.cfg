SPECIFICATION Spec
CONSTANTS
  StartDay <- HiStart
  StartDate <- HiDate
  Lo <- HiStart
  Hi <- HiHi
INVARIANTS ClosedFormAgrees WellFormed Cycle DoyRule WeekRules OrderIso RangeEnds 
CHECK_DEADLOCK FALSE
