SPECIFICATION Spec
CONSTANTS
  Xs <- MCXs
  Incs <- MCIncs
INVARIANTS Adjacent Direction Nearest Transcriptions NegSym
CHECK_DEADLOCK FALSE
