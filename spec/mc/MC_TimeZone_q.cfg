SPECIFICATION Spec
CONSTANTS
  Zones <- QZones
  Walls <- QWalls
  IWalls <- QIWalls
  Instants <- QInstants
  OneStep = TRUE
INVARIANTS MapsBack DisLaw FromDateLaw WallLaw InterpretLaw ViewLaw StringTripLaw
CHECK_DEADLOCK FALSE
