---------------------------- MODULE MC_YearMonth ----------------------------
(* Bounded instances of YearMonthMachine (C18) and the CASE emission for spec -> impl replay. *)
EXTENDS YearMonthMachine, Json

NA == -999999
I32Max == 2147483647
I32Min == -2147483647 - 1
MkYmP(y, m, mc, d) ==
  [k \in (IF y = NA THEN {} ELSE {"year"}) \cup (IF m = NA THEN {} ELSE {"month"})
         \cup (IF mc = "-" THEN {} ELSE {"monthCode"}) \cup (IF d = NA THEN {} ELSE {"day"})
     |-> CASE k = "year" -> y [] k = "month" -> m [] k = "monthCode" -> mc [] k = "day" -> d]
DaysOfMonth(y, m, lo, hi) == {Date(y, m, d) : d \in lo..hi}

(* ---- year-month routes: ordinary months and both limits ---- *)
StrYears == {2020, 2021, 1972, 0, -1, 9999, 10000, -271821, 275760}
StrRoutes == {[k |-> "str", y |-> y, m |-> m, d |-> d, t |-> t] :
                y \in StrYears, m \in {1, 2, 3, 4, 5, 9, 10, 12}, d \in {0, 1, 17, 28, 29, 30, 31}, t \in {"", "T10:00", "T23:59:59.999999999"}}
YmStrRoutes == {r \in StrRoutes : r.d # 0 \/ r.t = ""}
\* full dates with the ISO calendar annotation in any letter case (calendar identifiers are case-insensitive): the day is dropped all the same
YmStrAnnRoutes == {[k |-> "str", y |-> y, m |-> m, d |-> d, t |-> t] : y \in {2020, 2024}, m \in {2, 3}, d \in {1, 15, 29},
                                                                       t \in {"[u-ca=iso8601]", "[u-ca=ISO8601]", "T10:00[u-ca=Iso8601]", "[!u-ca=ISO8601]"}}
YmDateRoutes == {[k |-> "date", d |-> dt] : dt \in DaysOfMonth(2020, 2, 1, 29) \cup DaysOfMonth(2021, 2, 1, 28) \cup DaysOfMonth(2020, 1, 1, 31)
                                                  \cup DaysOfMonth(2021, 12, 1, 31) \cup DaysOfMonth(-271821, 4, 19, 30) \cup DaysOfMonth(275760, 9, 1, 13)
                                                  \cup DaysOfMonth(0, 2, 28, 29) \cup DaysOfMonth(-1, 12, 30, 31)}
YmPartialRoutes == {[k |-> "partial", p |-> MkYmP(y, m, mc, d), ovf |-> ovf] :
                      y \in {2020, -271821, 275760}, m \in {NA, 0, 4, 9, 13}, mc \in {"-", "M04", "M09"}, d \in {NA, 1, 17, 31, 0, 255}, ovf \in Ovfs}
NewNoRef == {[k |-> "new", y |-> y, m |-> m, ovf |-> ovf] :
               y \in {2020, 2021, -271821, 275760, -271822, 275761, I32Max, I32Min}, m \in {0, 2, 3, 4, 9, 10, 12, 13, 255}, ovf \in Ovfs}
NewRef == {[k |-> "new", y |-> y, m |-> m, rd |-> rd, ovf |-> ovf] :
               y \in {2020, 2021, -271821, 275760, 275761, I32Max}, m \in {0, 2, 4, 9, 10, 13}, rd \in {1, 17, 29, 30, 31, 0, 255}, ovf \in Ovfs}
YmWithRoutes == {[k |-> "with", recv |-> rv, p |-> p, ovf |-> ovf] :
                   rv \in {YMV(2020, 5, 1), YMV(2020, 1, 31), YMV(275760, 9, 13)},
                   p \in {[month |-> 7], [year |-> 2021], [monthCode |-> "M02"], [month |-> 2, monthCode |-> "M02"], [year |-> 2020, month |-> 5]}, ovf \in Ovfs}
QYmRoutes == YmStrRoutes \cup YmStrAnnRoutes \cup YmDateRoutes \cup YmPartialRoutes \cup NewNoRef \cup NewRef \cup YmWithRoutes \cup {[k |-> "default"]}

\* the routes to one year-month (dt = a date in it), compared pairwise: all must give the same value except the explicit references
RoutesTo(dt, dt2) ==
  {[k |-> "str", y |-> dt.y, m |-> dt.m, d |-> 0, t |-> ""], [k |-> "str", y |-> dt.y, m |-> dt.m, d |-> dt.d, t |-> ""],
   [k |-> "str", y |-> dt.y, m |-> dt.m, d |-> dt2.d, t |-> "T10:00"],
   [k |-> "date", d |-> dt], [k |-> "date", d |-> dt2],
   [k |-> "partial", p |-> [year |-> dt.y, month |-> dt.m], ovf |-> "reject"],
   [k |-> "partial", p |-> [year |-> dt.y, monthCode |-> CodeOf(dt.m), day |-> dt2.d], ovf |-> "constrain"],
   [k |-> "new", y |-> dt.y, m |-> dt.m, ovf |-> "reject"],
   [k |-> "new", y |-> dt.y, m |-> dt.m, rd |-> 1, ovf |-> "reject"],
   [k |-> "new", y |-> dt.y, m |-> dt.m, rd |-> dt2.d, ovf |-> "reject"],
   [k |-> "with", recv |-> YMV(2000, dt.m, 1), p |-> [year |-> dt.y], ovf |-> "reject"]}
QCmpRoutes == RoutesTo(Date(2020, 5, 1), Date(2020, 5, 17)) \cup RoutesTo(Date(2020, 6, 2), Date(2020, 6, 30))
              \cup RoutesTo(Date(-271821, 4, 19), Date(-271821, 4, 30)) \cup RoutesTo(Date(275760, 9, 1), Date(275760, 9, 13))

(* ---- month-day routes ---- *)
MdStrRoutes == {[k |-> "str", f |-> f, m |-> m, d |-> d] : f \in {"MM-DD", "--MM-DD", "MMDD", "--MMDD"}, m \in 0..13, d \in {0, 1, 28, 29, 30, 31, 32}}
MdFullStrRoutes == {[k |-> "str", f |-> "YYYY-MM-DD", y |-> y, m |-> m, d |-> d] : y \in {1972, 2021, 2024}, m \in {2, 12}, d \in {28, 29, 31}}
                   \* full dates just outside the limits of a PlainDate: the year is dropped all the same
                   \cup {[k |-> "str", f |-> "YYYY-MM-DD", y |-> 275760, m |-> 9, d |-> 14], [k |-> "str", f |-> "YYYY-MM-DD", y |-> 275760, m |-> 12, d |-> 31],
                         [k |-> "str", f |-> "YYYY-MM-DD", y |-> -271821, m |-> 4, d |-> 18], [k |-> "str", f |-> "YYYY-MM-DD", y |-> -271821, m |-> 1, d |-> 1]}
MdDateRoutes == {[k |-> "date", d |-> dt] : dt \in UNION {DaysOfMonth(2020, m, 1, DIM(2020, m)) : m \in 1..12} \cup DaysOfMonth(2021, 2, 1, 28)
                                                   \cup DaysOfMonth(-271821, 4, 19, 20) \cup DaysOfMonth(275760, 9, 12, 13)}
MdNewNoRef == {[k |-> "new", m |-> m, d |-> d, ovf |-> ovf] : m \in {0, 1, 2, 4, 6, 9, 11, 12, 13, 255}, d \in {0, 1, 28, 29, 30, 31, 32, 255}, ovf \in Ovfs}
MdNewRef == {[k |-> "new", m |-> m, d |-> d, ry |-> ry, ovf |-> ovf] :
               m \in {0, 2, 4, 9, 10, 13}, d \in {0, 1, 13, 14, 19, 28, 29, 30, 31}, ry \in {1972, 2021, 2024, 1900, 2000, -271821, 275760, 275761, I32Max, I32Min}, ovf \in Ovfs}
\* (the value a default-constructed month-day / year-month is: one more route to 01-01 / 1970-01, canonical like the others)
MdPartialRoutes == {[k |-> "partial", p |-> MkYmP(y, m, mc, d), ovf |-> ovf] : y \in {NA, 2021, 2024}, m \in {NA, 2, 12, 13}, mc \in {"-", "M02"}, d \in {NA, 28, 29, 31}, ovf \in Ovfs}
QMdRoutes == MdStrRoutes \cup MdFullStrRoutes \cup MdDateRoutes \cup MdNewNoRef \cup MdNewRef \cup {[k |-> "default"]} \cup MdPartialRoutes
MdRoutesTo(m, d) ==
  {[k |-> "str", f |-> "MM-DD", m |-> m, d |-> d], [k |-> "str", f |-> "--MMDD", m |-> m, d |-> d],
   [k |-> "date", d |-> Date(2020, m, d)], [k |-> "date", d |-> Date(2024, m, d)],
   [k |-> "new", m |-> m, d |-> d, ovf |-> "reject"], [k |-> "new", m |-> m, d |-> d, ry |-> 1972, ovf |-> "reject"],
   [k |-> "new", m |-> m, d |-> d, ry |-> 2024, ovf |-> "reject"],
   [k |-> "partial", p |-> [month |-> m, day |-> d], ovf |-> "reject"], [k |-> "partial", p |-> [year |-> 2024, month |-> m, day |-> d], ovf |-> "constrain"]}
QMdCmpRoutes == MdRoutesTo(2, 29) \cup MdRoutesTo(2, 28) \cup MdRoutesTo(12, 31) \cup MdRoutesTo(1, 1) \cup {[k |-> "default"]}

(* ---- arithmetic ---- *)
QReceivers == {YMV(2019, 12, 1), YMV(2020, 1, 1), YMV(2020, 2, 1), YMV(2021, 6, 1), YMV(0, 1, 1), YMV(-1, 12, 1),
               YMV(-271821, 4, 1), YMV(-271821, 5, 1), YMV(-271821, 6, 1), YMV(275760, 9, 1), YMV(275760, 8, 1), YMV(275759, 10, 1),
               YMV(2020, 1, 31), YMV(2020, 2, 29), YMV(2021, 3, 15), YMV(275760, 9, 20), YMV(-271821, 4, 10)}
SameSignI(a, b) == a = 0 \/ b = 0 \/ SgnI(a) = SgnI(b)
QDurSet == {D \in [y : -3..3, mo : -25..25] : SameSignI(D.y, D.mo)}
           \cup {[y |-> 273740, mo |-> 8], [y |-> 273740, mo |-> 9], [y |-> -273841, mo |-> -8], [y |-> -273841, mo |-> -9], [y |-> -273841, mo |-> -10],
                 [y |-> 0, mo |-> 6570000], [y |-> 547581, mo |-> 4], [y |-> 547581, mo |-> 5], [y |-> 600000, mo |-> 0], [y |-> 0, mo |-> 7200000]}
Months(y1, y2) == {YMV(y, m, 1) : y \in y1..y2, m \in 1..12}
QOthers == Months(2019, 2022) \cup {YMV(-271821, 4, 1), YMV(-271821, 5, 1), YMV(275760, 9, 1), YMV(275760, 8, 1), YMV(0, 1, 1), YMV(-1, 12, 1),
                                    YMV(2020, 3, 31), YMV(2020, 1, 15)}
NoSt == <<>>
QSettings == {NoSt, [largest |-> "year"], [largest |-> "month"], [largest |-> "auto"], [smallest |-> "month"], [largest |-> "year", smallest |-> "month"],
              [largest |-> "week"], [largest |-> "day"], [smallest |-> "week"], [smallest |-> "day"], [largest |-> "month", smallest |-> "day"]}
TReceivers == QReceivers \cup Months(2023, 2024)
TOthers == Months(2015, 2030) \cup QOthers
NoSet == {}

(* ---- emission ---- *)
OutFor(o) == IF "alt" \in DOMAIN o THEN [kind |-> "any"] ELSE o
JsonYmRoute(r) == IF r.k = "str" THEN r @@ [s |-> YmRouteStr(r)] ELSE r
JsonMdRoute(r) == IF r.k = "str" THEN r @@ [s |-> MdRouteStr(r)] ELSE r
CaseOf ==
  IF last.op = "route" /\ last.kind = "ym" THEN
    [op |-> "PlainYearMonth.route", cls |-> YmRouteCls(last.r), args |-> [route |-> JsonYmRoute(last.r)], out |-> OutFor(FullOf("ym", last.out))]
  ELSE IF last.op = "route" THEN
    [op |-> "PlainMonthDay.route", cls |-> MdRouteCls(last.r), args |-> [route |-> JsonMdRoute(last.r)], out |-> OutFor(FullOf("md", last.out))]
  ELSE IF last.op = "cmp" /\ last.kind = "ym" THEN
    [op |-> "PlainYearMonth.cmp", cls |-> CmpCls("ym", last.a, last.b),
     args |-> [a |-> JsonYmRoute(last.a), b |-> JsonYmRoute(last.b)], out |-> last.out]
  ELSE IF last.op = "cmp" THEN
    [op |-> "PlainMonthDay.cmp", cls |-> CmpCls("md", last.a, last.b),
     args |-> [a |-> JsonMdRoute(last.a), b |-> JsonMdRoute(last.b)], out |-> last.out]
  ELSE IF last.op \in {"addFull", "subtractFull"} THEN
    [op |-> IF last.op = "addFull" THEN "PlainYearMonth.add" ELSE "PlainYearMonth.subtract", cls |-> "with-days-or-hours/" \o last.out.kind,
     args |-> [recv |-> last.recv, dur |-> Dur10(FromInt(last.dur.y), FromInt(last.dur.mo), FromInt(last.dur.w), FromInt(last.dur.d), FromInt(last.dur.h), Zero, Zero, Zero, Zero, Zero), ovf |-> last.ovf],
     out |-> last.out]
  ELSE IF last.op \in {"add", "subtract"} THEN
    [op |-> "PlainYearMonth." \o last.op, cls |-> ArithCls(last.recv, last.recv) \o "/" \o (IF last.out.kind = "ok" THEN "ok" ELSE "beyond"),
     args |-> [recv |-> last.recv, dur |-> DateDur(last.dur.y, last.dur.mo, 0, 0), ovf |-> last.ovf], out |-> OutFor(last.out)]
  ELSE
    [op |-> "PlainYearMonth." \o last.op, cls |-> ArithCls(last.recv, last.other) \o "/" \o (IF DiffUnitsRefused(last.st) THEN "refused" ELSE YmLargest(last.st)),
     args |-> [recv |-> last.recv, other |-> last.other, st |-> last.st], out |-> OutFor(last.out)]
Emit == last.op = "none" \/ PrintT("CASE " \o ToJson(CaseOf))
=============================================================================
