SPECIFICATION GSpec
CONSTANTS
  GenForms <- FDateTime
  GenYears <- BoundaryYears
  Budget = 2
INVARIANTS StructureRecovered DurationRecovered GeneratedAccepted MutationsRejected SmallGoals OutcomesWellFormed
CHECK_DEADLOCK FALSE
