---------------------------- MODULE Trace_Format ----------------------------
(* impl -> spec for C11. Sessions: a value is printed (Fmt.<Type>: args = abstract value + options, out = the text as   *)
(* characters), the text is parsed back (Parse.<Type>, chained to the printed characters) and printed again.            *)
(* Every event must be the step the Format machine takes: chars = Format(v), the parse returns the value the grammar     *)
(* assigns (= v whenever the options keep the information), the second print equals the first.                          *)
(* Enum.display / Enum.parse events are judged against the table of option names.                                       *)
EXTENDS Format, TraceBase

VARIABLE l
tvars == <<cur, last, l>>
E == Rec[l]
NoOpts(ty) == {}
Nil == [ph |-> "none"]

TyOf(op) == SubSeq(op, 5, Len(op))              \* "Fmt.<Type>"
GoalOf(op) == SubSeq(op, 7, Len(op))            \* "Parse.<Goal>"
IsFmt(e) == SubSeq(e.op, 1, 4) = "Fmt." /\ TyOf(e.op) \in Types
IsParse(e) == SubSeq(e.op, 1, 6) = "Parse." /\ GoalOf(e.op) \in Types \cup {"UtcOffset", "TimeZoneId", "TimeZone", "MonthCode", "Calendar"}
IsEnum(e) == e.op \in {"Enum.display", "Enum.parse"}
IsText(e) == e.op \in {"Fmt.TimeZone", "Fmt.MonthCode", "Fmt.Calendar", "Fmt.YearPad"}

OptsOfArgs(a) == IF Get(a, "via", "") = "display" THEN DefaultOpts
                 ELSE [p |-> Get(a, "prec", -1), su |-> Get(a, "su", ""), cd |-> Get(a, "cd", "auto"), od |-> Get(a, "od", "auto"),
                       zd |-> Get(a, "zd", "auto"), tz |-> Get(a, "tz", <<>>)]
\* named zones: the offset (seconds) the implementation's own getter reported travels in the event; it is rounded to the minute for printing
RoundMin(sec) == IF sec >= 0 THEN (2 * sec + 60) \div 120 ELSE -((2 * (-sec) + 60) \div 120)
FmtNamed(v, offs, o) ==
  LET p == EffPrec(o.p, o.su)
      e == SplitEpoch(Add(FloorBig(v.ns, p), K9(FromInt(offs))))     \* the instant is rounded first, then read in the zone
      d == CivilFromDays(e.day)
      w == [y |-> d.y, m |-> d.m, d |-> d.d, h |-> e.sod \div 3600, mi |-> (e.sod \div 60) % 60, s |-> e.sod % 60,
            ms |-> e.sub \div 1000000, us |-> (e.sub \div 1000) % 1000, ns |-> e.sub % 1000]
  IN FmtDate(w) \o "T" \o FmtTime(w, p) \o (IF o.od = "never" THEN "" ELSE Offset(RoundMin(offs))) \o TzAnn(ZoneText(v.tz), o.zd) \o CalAnn(v.cal, o.cd)
ExpectedFmt(e) ==
  LET ty == TyOf(e.op)
      o == OptsOfArgs(e.args)
  IN IF ty = "ZonedDateTime" /\ Has(e.args, "offs")
     THEN (IF ~OptsValid(ty, o) THEN ErrRange ELSE Ok(Chars(FmtNamed(e.args.v, e.args.offs, o))))
     ELSE FormatOut(ty, e.args.v, o)
ExpectedEnum(e) ==
  IF e.op = "Enum.display" THEN Ok(Chars(EnumText(e.args.enum, e.args.variant)))
  ELSE LET v == EnumParse(e.args.enum, Join(e.args.chars)) IN IF v = "" THEN [kind |-> "range"] ELSE Ok(v)
ExpectedText(e) ==
  CASE e.op = "Fmt.YearPad" -> Ok(Chars(PadYear(e.args.y)))
    [] e.op = "Fmt.TimeZone" -> LET x == Outcome("TimeZoneId", e.args.tz) IN IF x.kind = "ok" THEN Ok(x.val.str) ELSE [kind |-> x.kind]
    [] e.op = "Fmt.MonthCode" -> LET x == Outcome("MonthCode", e.args.chars) IN IF x.kind = "ok" THEN Ok(x.val.str) ELSE [kind |-> x.kind]
    [] e.op = "Fmt.Calendar" -> IF LowSeq(e.args.chars) \in KnownCalChars THEN Ok(LowSeq(e.args.chars))
                                ELSE IF LowSeq(e.args.chars) \in AliasCalChars THEN [kind |-> "any"] ELSE [kind |-> "range"]

\* a chained parse reads exactly the characters the previous Fmt event of the session produced
Chained(e) == Get(e.args, "chain", FALSE) => (cur.ph = "text" /\ e.args.chars = cur.chars)
\* ... and must give back the value that was printed, when the options kept it
RoundTripOK(e) ==
  (Get(e.args, "chain", FALSE) /\ cur.ph = "text" /\ GoalOf(e.op) = cur.ty /\ KeepsInfo(cur.ty, cur.v, cur.o) /\ ~Has(cur, "named") /\ ~Has(cur, "fmtbad")) =>
     LET x == Expected(cur.ty, e.args.chars) IN IF x.kind = "any" \/ ~Has(x, "val") THEN TRUE ELSE x.val = Canon(cur.ty, cur.v)   \* (IF: inside an action TLC evaluates every disjunct)
ExpectedOf(e) == IF IsFmt(e) THEN ExpectedFmt(e) ELSE IF IsParse(e) THEN Expected(GoalOf(e.op), e.args.chars)
                 ELSE IF IsEnum(e) THEN ExpectedEnum(e) ELSE IF IsText(e) THEN ExpectedText(e) ELSE "unknown-op"
Known(e) == IsFmt(e) \/ IsParse(e) \/ IsEnum(e) \/ IsText(e)
Good(e) == Known(e) /\ Agrees(ExpectedOf(e), e.out) /\ (IsParse(e) => Chained(e) /\ RoundTripOK(e))
\* printing a second time (after the parse) must give the same text
SecondPrintSame(e) == (IsFmt(e) /\ Get(e.args, "again", FALSE) /\ cur.ph = "parsed" /\ e.out.kind = "ok") => e.out.val = cur.chars

ClsOf(e) ==
  IF IsFmt(e) THEN (IF Get(e.args, "via", "") = "display" THEN "display:" ELSE "") \o FmtCls(TyOf(e.op), e.args.v, OptsOfArgs(e.args))
  ELSE IF IsParse(e) THEN (IF ~Chained(e) THEN "session-chain-broken" ELSE IF ~RoundTripOK(e) THEN "SPEC-INCONSISTENT" ELSE ParseCls(GoalOf(e.op), e.args.chars))
  ELSE IF IsEnum(e) THEN e.args.enum \o "/" \o (IF e.op = "Enum.display" THEN EnumText(e.args.enum, e.args.variant) \o "-name"
                                                 ELSE IF EnumParse(e.args.enum, Join(e.args.chars)) = "" THEN "not-a-name" ELSE Join(e.args.chars) \o "-name")
  ELSE IF e.op = "Fmt.YearPad" THEN "year/" \o ToString(e.args.y)
  ELSE IF IsText(e) THEN SubSeq(e.op, 5, Len(e.op)) \o "/print-parse" ELSE "unknown-op"

TInit == l = 1 /\ cur = Nil /\ last = None
Reset == E.op = "reset" /\ cur' = Nil /\ last' = None
After(e) == IF IsFmt(e) /\ e.out.kind = "ok"
            THEN [ph |-> "text", ty |-> TyOf(e.op), v |-> e.args.v, o |-> OptsOfArgs(e.args), chars |-> e.out.val]
                 @@ (IF Has(e.args, "offs") THEN [named |-> TRUE] ELSE [nop |-> 0])
            ELSE IF IsParse(e) /\ Get(e.args, "chain", FALSE) /\ cur.ph = "text" /\ e.out.kind = "ok" THEN [cur EXCEPT !.ph = "parsed"]
            ELSE Nil
Match == /\ E.op # "reset" /\ Good(E) /\ SecondPrintSame(E)
         /\ cur' = After(E) /\ last' = [op |-> E.op]
Mismatch == /\ E.op # "reset"
            /\ ~(Good(E) /\ SecondPrintSame(E))
            /\ Report(l, E.op, IF Good(E) THEN "second-print-differs:" \o ClsOf(E) ELSE ClsOf(E), ExpectedOf(E), E.out)
            /\ cur' = IF IsFmt(E) THEN After(E) @@ [fmtbad |-> TRUE] ELSE Nil      \* resync to what the implementation printed
            /\ last' = [op |-> "mismatch"]
TNext == l <= NEv /\ l' = l + 1 /\ (Reset \/ Match \/ Mismatch)
TSpec == TInit /\ [][TNext]_tvars

\* evaluated at every step: a remembered text is never empty
CursorOK == cur.ph \in {"none"} \/ Len(cur.chars) > 0
=============================================================================
