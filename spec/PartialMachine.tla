--------------------------- MODULE PartialMachine ---------------------------
(* Session state machine over Partial (model checking, case generation, trace validation) and the laws of C17. *)
EXTENDS Partial

CONSTANTS Receivers,        \* typed values [ty, v] explored as receivers of `with`
          PartialsOf(_),    \* type -> set of partial records tried
          FromTypes,        \* types whose from_partial is explored with PartialsOf(type)
          NewArgs,          \* typed raw positional constructor arguments [ty, v]
          IdentityOn,       \* TRUE: also apply every non-empty subset of the receiver's own fields to itself
          OneStep           \* TRUE: depth-1 exploration (every transition once); FALSE: unbounded sessions
VARIABLES cur, last
vars == <<cur, last>>

None == [op |-> "none"]
Nothing == [ty |-> "none", v |-> <<>>]
Ovfs == {"constrain", "reject"}
Init == cur \in Receivers \cup {Nothing} /\ last = None

WithAct(p, ovf) ==
  /\ cur # Nothing
  /\ LET o == With(cur.ty, cur.v, p, ovf)
     IN /\ last' = [op |-> "with", ty |-> cur.ty, recv |-> cur.v, p |-> p, ovf |-> ovf, out |-> o]
        /\ cur' = IF o.kind = "ok" THEN [ty |-> cur.ty, v |-> o.val] ELSE cur
FromAct(ty, p, ovf) ==
  /\ cur = Nothing
  /\ LET o == FromPartial(ty, p, ovf)
     IN /\ last' = [op |-> "from_partial", ty |-> ty, recv |-> <<>>, p |-> p, ovf |-> ovf, out |-> o]
        /\ cur' = IF o.kind = "ok" THEN [ty |-> ty, v |-> o.val] ELSE cur
NewAct(a, ovf) ==
  /\ cur = Nothing
  /\ LET o == New(a.ty, a.v, ovf)
     IN /\ last' = [op |-> "new", ty |-> a.ty, recv |-> <<>>, p |-> NewAsPartial(a.ty, a.v), ovf |-> ovf, out |-> o]
        /\ cur' = IF o.kind = "ok" THEN [ty |-> a.ty, v |-> o.val] ELSE cur

\* a receiver in a calendar with eras (gregory: ce = years >= 1, bce = 1 - year): a record that supplies era and eraYear - with or without
\* other fields, but without a year - designates the year through them; everything else is as for `with` on the year so designated
EraYearOf(era, ey) == IF era = "ce" THEN ey ELSE 1 - ey
Eras == {"ce", "bce"}
EraExtras == {"none", "month", "day", "code", "month-day", "month13", "month0"}
EraExtra(k, year) == CASE k = "none" -> [year |-> year] [] k = "month" -> [year |-> year, month |-> 2] [] k = "day" -> [year |-> year, day |-> 31]
                       [] k = "code" -> [year |-> year, monthCode |-> "M02"] [] k = "month13" -> [year |-> year, month |-> 13] [] k = "month0" -> [year |-> year, month |-> 0]
                       [] OTHER -> [year |-> year, month |-> 12, day |-> 1]
EraAct(era, ey, extra, ovf) ==
  /\ cur # Nothing /\ cur.ty = "date" /\ cur.v.y \in 1..9999
  /\ LET p == EraExtra(extra, EraYearOf(era, ey))
         o == With(cur.ty, cur.v, p, ovf)
     IN /\ last' = [op |-> "with", ty |-> cur.ty, recv |-> cur.v, p |-> p, ovf |-> ovf, out |-> o, era |-> <<era, ey>>]
        /\ cur' = IF o.kind = "ok" THEN [ty |-> cur.ty, v |-> o.val] ELSE cur
\* ... and half a designation - era without eraYear or eraYear without era, next to a year or not - is an incomplete record: TypeError
HalfEraAct(half, withYear, ovf) ==
  /\ cur # Nothing /\ cur.ty = "date" /\ cur.v.y \in 1..9999
  /\ last' = [op |-> "with", ty |-> cur.ty, recv |-> cur.v, p |-> IF withYear THEN [year |-> 2000] ELSE [month |-> 3], ovf |-> ovf, out |-> [kind |-> "type"], half |-> half]
  /\ UNCHANGED cur
Next == /\ (OneStep => last = None)
        /\ \/ \E ovf \in Ovfs : \E p \in PartialsOf(IF cur = Nothing THEN "none" ELSE cur.ty) : WithAct(p, ovf)
           \/ /\ IdentityOn /\ cur # Nothing
              /\ \E ovf \in Ovfs : \E S \in (SUBSET DOMAIN OwnFields(cur.ty, cur.v)) \ {{}} : WithAct(Restrict(OwnFields(cur.ty, cur.v), S), ovf)
           \* ... and the receiver's own year, month and day together with a month code that contradicts them or is foreign to the calendar
           \/ /\ IdentityOn /\ cur # Nothing /\ cur.ty \in {"date", "datetime", "yearmonth"}
              /\ \E ovf \in Ovfs : \E c \in {CodeOf(IF cur.v.m = 12 THEN 1 ELSE cur.v.m + 1), "M02L", "M13"} :
                    WithAct([k \in (DOMAIN OwnFields(cur.ty, cur.v) \cap {"year", "month", "day", "monthCode"}) |-> IF k = "monthCode" THEN c ELSE OwnFields(cur.ty, cur.v)[k]], ovf)
           \/ /\ IdentityOn /\ cur # Nothing /\ cur.ty = "date"
              /\ \E ovf \in Ovfs, extra \in EraExtras : \E e \in {<<"ce", cur.v.y>>, <<"ce", 2023>>, <<"ce", 1>>, <<"bce", 1>>, <<"bce", 5>>} : EraAct(e[1], e[2], extra, ovf)
           \/ /\ IdentityOn /\ cur # Nothing /\ cur.ty = "date"
              /\ \E ovf \in Ovfs, half \in {"era", "eraYear"}, wy \in BOOLEAN : HalfEraAct(half, wy, ovf)
           \/ \E ovf \in Ovfs : \E ty \in FromTypes : \E p \in PartialsOf(ty) : FromAct(ty, p, ovf)
           \/ \E ovf \in Ovfs : \E a \in NewArgs : NewAct(a, ovf)
Spec == Init /\ [][Next]_vars

(* ---------------- the laws of C17, as invariants over the last transition ---------------- *)
Done == last.op # "none"
IsOk == Done /\ last.out.kind = "ok"
P == last.p
R == last.recv
O == last.out.val
HasD == last.ty \in {"date", "datetime", "yearmonth", "zoned"}     \* has year and month
HasDay == last.ty \in {"date", "datetime", "zoned"}
HasT == last.ty \in {"time", "datetime", "zoned"}
AbsDiff(a, b) == IF a >= b THEN a - b ELSE b - a
TShort == [hour |-> "h", minute |-> "mi", second |-> "s", millisecond |-> "ms", microsecond |-> "us", nanosecond |-> "ns"]
TMax == [hour |-> 23, minute |-> 59, second |-> 59, millisecond |-> 999, microsecond |-> 999, nanosecond |-> 999]
Min2I(a, b) == IF a <= b THEN a ELSE b

\* (1) fields that were not supplied come from the receiver (or are the type's default); only an unsupplied day may move, and only down to the month's length
UsesOnlySupplied ==
  (IsOk /\ last.op = "with") =>
    /\ (HasD /\ ~Sup(P, "year")) => O.y = R.y
    /\ (HasD /\ ~HasMonth(P)) => O.m = R.m
    /\ (HasDay /\ ~Sup(P, "day")) => /\ O.d = Min2I(R.d, DIM(O.y, O.m))
                                     /\ (last.ovf = "reject" => O.d = R.d)
    /\ HasT => \A k \in TimeKeys : ~Sup(P, k) => O[TShort[k]] = R[TShort[k]]
    /\ last.ty = "yearmonth" => O.rd = 1
DefaultsAreZero ==
  (IsOk /\ last.op = "from_partial" /\ HasT) => \A k \in TimeKeys : ~Sup(P, k) => O[TShort[k]] = 0

\* (2) applying a value's own fields (any non-empty subset of them) to itself is the identity
AppliesOwn == Done /\ last.op = "with" /\ DOMAIN P # {} /\ \A k \in DOMAIN P : P[k] = OwnFields(last.ty, R)[k]
IdentityLaw == AppliesOwn /\ "half" \notin DOMAIN last => last.out = Ok(R)

\* (3) under constrain every supplied numeric field ends at the valid value nearest to what was supplied
ClampNearest ==
  (IsOk /\ last.ovf = "constrain") =>
    /\ (HasD /\ Sup(P, "month") /\ ~Sup(P, "monthCode")) => /\ O.m \in 1..12
                                                            /\ \A v \in 1..12 : AbsDiff(O.m, P.month) <= AbsDiff(v, P.month)
    /\ (HasDay /\ Sup(P, "day")) => /\ O.d \in 1..DIM(O.y, O.m)
                                    /\ \A v \in 1..DIM(O.y, O.m) : AbsDiff(O.d, P.day) <= AbsDiff(v, P.day)
    /\ HasT => \A k \in TimeKeys : Sup(P, k) =>
                 LET x == P[k]  o == O[TShort[k]]  hi == TMax[k]
                 IN /\ o \in 0..hi
                    /\ IF hi < 100 THEN \A v \in 0..hi : AbsDiff(o, x) <= AbsDiff(v, x)
                       ELSE (x < 0 => o = 0) /\ (x > hi => o = hi) /\ (x \in 0..hi => o = x)

\* (4) under reject: a result carries every supplied field verbatim; an error has a reason
Verbatim ==
  /\ (HasD /\ Sup(P, "year")) => O.y = P.year
  /\ (HasD /\ Sup(P, "month")) => O.m = P.month
  /\ (HasD /\ Sup(P, "monthCode")) => CodeOf(O.m) = P.monthCode
  /\ (HasDay /\ Sup(P, "day")) => O.d = P.day
  /\ HasT => \A k \in TimeKeys : Sup(P, k) => O[TShort[k]] = P[k]
RejectSound == (IsOk /\ last.ovf = "reject") => Verbatim
\* candidate record: supplied fields, the rest from the receiver / defaults
CandY == Fld(P, "year", IF last.op = "with" THEN R.y ELSE 0)
CandM == IF Sup(P, "monthCode") THEN CodeNum(P.monthCode) ELSE Fld(P, "month", IF last.op = "with" THEN R.m ELSE 0)
CandD == IF HasDay THEN Fld(P, "day", IF last.op = "with" THEN R.d ELSE 0) ELSE 1
CandT == IF HasT THEN MergeTime(IF last.op = "with" THEN TimeOf(R) ELSE MidnightRec, P) ELSE MidnightRec
OutOfLimits(y, m, d, t) ==
  \/ ~YearOK(y)
  \/ (last.ty = "yearmonth" /\ ~YmInLimits(y, m))
  \/ (last.ty = "date" /\ ~DateInLimits(Date(y, m, d)))
  \/ (last.ty = "datetime" /\ ~DateTimeInLimits(Date(y, m, d), t))
  \/ (last.ty = "zoned" /\ (~DateInLimits(Date(y, m, d)) \/ ~InstantInLimits(ZonedInstant(Date(y, m, d), t, 0))))
RejectComplete ==
  (Done /\ last.ovf = "reject" /\ last.out.kind = "range") =>
    \/ BadCode(P) \/ Conflict(P)
    \/ (HasD /\ (CandM \notin 1..12 \/ (HasDay /\ (CandD < 1 \/ CandD > DIM(CandY, CandM)))))
    \/ (HasT /\ ~TimeOK(CandT))
    \/ (HasD /\ OutOfLimits(CandY, CandM, CandD, CandT))

\* (5) constrain refuses only month/code contradictions, codes foreign to the calendar, and results beyond the limits;
\*     and whenever reject succeeds constrain gives the same value
ConstrainComplete ==
  (Done /\ last.ovf = "constrain" /\ last.out.kind = "range") =>
    \/ BadCode(P) \/ Conflict(P)
    \/ (HasD /\ LET m == Clamp(CandM, 1, 12) IN OutOfLimits(CandY, m, Clamp(CandD, 1, DIM(CandY, m)), RegTime(CandT, "constrain").val))
Redo(ovf) == CASE last.op = "with" -> With(last.ty, R, P, ovf)
               [] last.op = "from_partial" -> FromPartial(last.ty, P, ovf)
               [] last.op = "new" -> last.out        \* constructors are compared through their own two transitions
RejectRefinesConstrain ==
  (Done /\ last.op # "new" /\ last.ovf = "constrain" /\ "half" \notin DOMAIN last) => LET r == Redo("reject") IN r.kind = "ok" => last.out = r

\* (6) TypeError exactly for an empty record or one missing a required field
TypeErrorIff ==
  Done => /\ (last.out.kind \in {"type", "err"}) =>
                (DOMAIN P = {} \/ "half" \in DOMAIN last \/ (last.op = "from_partial" /\ ((HasDay /\ MissingDate(P)) \/ (last.ty = "yearmonth" /\ MissingYm(P)))))
          /\ (DOMAIN P = {}) => last.out.kind = "type"
          /\ (last.op = "from_partial" /\ ((HasDay /\ MissingDate(P)) \/ (last.ty = "yearmonth" /\ MissingYm(P)))) => last.out.kind \in {"type", "err"}

\* (7) every value produced is well formed and within the limits of its type
WellFormed ==
  IsOk => /\ HasD => O.m \in 1..12 /\ YearOK(O.y)
          /\ HasDay => ValidDate(DateOf(O)) /\ DateInLimits(DateOf(O))
          /\ HasT => TimeOK(TimeOf(O))
          /\ last.ty = "datetime" => DateTimeInLimits(DateOf(O), TimeOf(O))
          /\ last.ty = "yearmonth" => YmInLimits(O.y, O.m) /\ O.rd = 1
=============================================================================
