"""C19 - convenience (compiled-data) and FFI layers return exactly what the core returns.

Pipeline: TLC enumerates receivers x rows of the method table of spec/Wrappers.tla (checking the observability
invariants) and emits one case per (receiver, row, arguments) with the expected abstract result; the harness
executes wrapper and core twin per case and judges wrapper = core = spec; a seeded driver produces pairwise
wrapper-vs-core events over the full-size domains which TLC validates against the same specification; the
table-rot guard compares the `pub fn`s of the two layers with the names the method table knows.

`python3 -m vc.p_c19 regen` rewrites harness/src/rec/c19_table.in (the driver's copy of the method table) from TLC.
"""
import json, os, re, sys, glob
from . import lib
from .lib import ToolError, log

COMPILED = os.path.join(lib.REPO, "src", "builtins", "compiled")
CAPI = os.path.join(lib.REPO, "temporal_capi", "src")
DRIVER_TABLE = os.path.join(lib.HARNESS, "src", "rec", "c19_table.in")


# ------------------------------------------------------------------ table-rot guard
IMPL_RE = re.compile(r"^\s*impl(?:\s*<[^>]*>)?\s+(?:([\w:]+)(?:<[^>]*>)?\s+for\s+)?([\w:]+)")
FN_RE = re.compile(r"^\s*pub\s+(?:const\s+|unsafe\s+|async\s+)*fn\s+(\w+)")


def scan_pub_fns():
    """(layer, qualified name, file:line) of every `pub fn` in the two wrapper layers.
    compiled layer: `<Type>.<fn>`; FFI layer: `capi.<Type>.<fn>` (functions inside `impl Type { .. }` blocks).
    Trait impls (`impl X for Y`) hold no `pub fn`; `pub(crate) fn` is not public and is skipped by the regex."""
    out = []
    for layer, d in (("compiled", COMPILED), ("capi", CAPI)):
        for f in sorted(glob.glob(os.path.join(d, "*.rs"))):
            cur = None
            in_tests = False
            for ln, line in enumerate(open(f, errors="replace"), 1):
                if re.match(r"^\s*mod\s+tests\s*\{", line):      # an inline test module runs to the end of the file
                    in_tests = True
                m = IMPL_RE.match(line)
                if m:
                    cur = m.group(2).split("::")[-1]
                m = FN_RE.match(line)
                if m and not in_tests:
                    ty = cur or "?"
                    out.append((layer, ("capi." if layer == "capi" else "") + ty + "." + m.group(1), os.path.relpath(f, lib.REPO) + ":" + str(ln)))
    return out


# the FFI names its functions after diplomat conventions; where the method-table row is not literally `<Type>.<fn>`
ALIASES = {}


def rot_guard(rows):
    known = {r["name"] for r in rows}
    scanned = scan_pub_fns()
    if len(scanned) < 150:
        raise ToolError(f"table-rot guard: only {len(scanned)} pub fns found under {COMPILED} and {CAPI} - scan broken or sources moved")
    unknown = [(n, where) for (_, n, where) in scanned if ALIASES.get(n, n) not in known]
    names = {ALIASES.get(n, n) for (_, n, _) in scanned}
    # rows that no longer correspond to a public function (Display-based `to_string` and the enum rows have no `pub fn`)
    stale = sorted(r["name"] for r in rows if r["name"] not in names and ".enum." not in r["name"] and r["name"] != "ZonedDateTime.to_string")
    return scanned, unknown, stale


# ------------------------------------------------------------------ generated C++ headers vs the spec's enum tables
def check_headers(run, enums):
    """The generated C/C++ bindings (temporal_capi/bindings/cpp) must declare every converted enum with the variant
    names and discriminants of the spec's enum table (a stale header makes C++ callers pass the wrong variant)."""
    d = os.path.join(lib.REPO, "temporal_capi", "bindings", "cpp", "temporal_rs")
    checked = 0
    for e in enums:
        f = os.path.join(d, e["enum"] + ".d.hpp")
        if not os.path.exists(f):
            log(f"WARNING: no generated header for enum {e['enum']} under {d}")
            continue
        txt = open(f).read()
        m = re.search(r"enum\s+%s\s*\{(.*?)\}" % re.escape(e["enum"]), txt, re.S)
        got = re.findall(r"%s_(\w+)\s*=\s*(-?\d+)" % re.escape(e["enum"]), m.group(1)) if m else []
        got = [[n, int(v)] for n, v in got]
        checked += 1
        if got != e["variants"]:
            run.mismatches.append(dict(op="Header.enum." + e["enum"], cls="capi.enum." + e["enum"] + "/cpp-header", direction="header",
                                       expected=dict(kind="ok", val=e["variants"]), observed=dict(kind="ok", val=got), source=os.path.relpath(f, lib.REPO)))
    run.cov["cpp_header_enums_checked"] = checked
    run.cov["evaluations"] += checked
    log(f"[headers] {checked} generated C++ enum declarations compared with the spec's enum tables")


# ------------------------------------------------------------------ TLC output
def parse_lines(path, tag):
    out = []
    for line in open(path, errors="replace"):
        if line.startswith('"' + tag + " "):
            out.append(json.loads(json.loads(line)[len(tag) + 1:]))
    return out


def driver_table_text(rows):
    rs = sorted((r for r in rows if r["gen"]), key=lambda r: r["name"])
    s = ("// (row, twin, receiver type, argument shape) - the driver's copy of the method table of spec/Wrappers.tla.\n"
         "// Generated from TLC's ROW lines (`python3 -m vc.p_c19 regen`; vc/p_c19.py checks it is in sync on every run);\n"
         "// the trace spec re-checks the pairing of every event.\n[\n")
    for r in rs:
        s += '    ("%s", "%s", "%s", "%s"),\n' % (r["name"], r["twin"], r["recv"], r["sig"])
    return s + "]\n"


# ------------------------------------------------------------------ replay through the special runner
def replay(run, b, cases, label):
    rep = os.path.join(run.dir, f"{label}.dev.report.ndjson")
    frm, total_cases, dt_all, samples, resumes = 0, 0, 0.0, [], 0
    while True:
        out, dt = run.harness(b, ["c19", "replay", cases, rep, frm])
        dt_all += dt
        summ = json.loads(out.strip().splitlines()[-1])
        total_cases += summ["cases"]
        samples += summ.get("samples", [])
        if summ.get("poisoned_at") is None:
            break
        # a wrapper panicked while holding the process-wide provider lock (reported as a mismatch of that case); resume in a fresh process
        resumes += 1
        frm = summ["poisoned_at"] + 1
        if resumes > 50:
            raise ToolError("replay: provider lock poisoned more than 50 times")
    mm = [json.loads(l) for l in open(rep)]
    for m in mm:
        m["direction"] = "replay"
        m["profile"] = "dev"
        m["source"] = os.path.relpath(cases, lib.ROOT)
    run.mismatches += mm
    run.cov["evaluations"] += total_cases
    run.cov["replay_runs"].append(dict(cases=total_cases, mismatches=len(mm), label=label, profile="dev", wall_s=round(dt_all, 1), lock_poisoned_resumes=resumes))
    for s in samples[:2]:
        run._sample(s)
    log(f"[replay] {label}: {total_cases} cases, {len(mm)} mismatches, {dt_all:.1f}s" + (f", resumed {resumes}x after lock poisoning" if resumes else ""))
    return total_cases, mm


def negative_control_replay(run, b, cases):
    """Corrupt one spec-claimed expectation; the runner must report it."""
    lines = [json.loads(l) for i, l in enumerate(open(cases)) if i < 3000]
    done = False
    for c in lines:
        if c["op"] == "Wrap.ZonedDateTime.day_of_year" and c["out"]["kind"] == "ok":
            c["out"]["val"] += 1
            done = True
            break
    if not done:
        raise ToolError("negative control could not find a case to corrupt")
    bad = os.path.join(run.dir, "negctl.cases.ndjson")
    with open(bad, "w") as f:
        for c in lines:
            f.write(json.dumps(c) + "\n")
    rep = os.path.join(run.dir, "negctl.report.ndjson")
    run.harness(b, ["c19", "replay", bad, rep])
    hits = [json.loads(l) for l in open(rep)]
    n = sum(1 for m in hits if m["op"] == "Wrap.ZonedDateTime.day_of_year" and m["why"] == "wrapper=core!=spec")
    run.cov["negative_controls"].append(dict(kind="replay", detected=n))
    if n != 1:
        raise ToolError("negative control: corrupted expectation was NOT detected by the C19 replay")
    log("[negctl] corrupted expectation detected by replay")


def run(run):
    b = lib.build_harness("dev")
    q = run.tier == "quick"
    tier = "quick" if q else "thorough"

    # ---- model check + generate (the generator run IS the model-checking run: same invariants plus Emit)
    cases, n = run.gen("mc/MC_Wrappers.tla", f"gen/Gen_C19_{tier}.cfg", workers=4, name=tier, timeout=1500)
    tlc_out = os.path.join(run.dir, f"gen_{tier}.tlc.out")
    rows = parse_lines(tlc_out, "ROW")
    enums = parse_lines(tlc_out, "ENUM")
    if not rows or not enums:
        raise ToolError("TLC did not print the method table / enum tables")
    gen_rows = [r for r in rows if r["gen"]]
    # vacuity: every generated row of the method table and every enum variant has at least one case
    seen_ops, seen_var, claimed = {}, set(), 0
    with open(cases) as f:
        for l in f:
            c = json.loads(l)
            seen_ops[c["op"]] = seen_ops.get(c["op"], 0) + 1
            claimed += c["out"]["kind"] != "same"
            if c["op"].startswith("Wrap.capi.enum."):
                seen_var.add((c["op"][len("Wrap.capi.enum."):], c["args"]["variant"]))
    missing = [r["name"] for r in gen_rows if "Wrap." + r["name"] not in seen_ops]
    if missing:
        raise ToolError(f"method-table rows without any generated case (vacuity guard): {missing}")
    allvar = {(e["enum"], v[0]) for e in enums for v in e["variants"]}
    if allvar - seen_var:
        raise ToolError(f"enum variants without a case: {sorted(allvar - seen_var)}")
    run.cov["method_table"] = dict(rows=len(gen_rows), excluded=[dict(name=r["name"], why=r["why"]) for r in rows if not r["gen"]],
                                   enums=len(enums), enum_variants=len(allvar), cases_with_spec_computed_value=claimed)

    # ---- the three harness dispatch tables know every row / twin; the driver's table copy is in sync
    rows_json = os.path.join(run.dir, "rows.json")
    json.dump(rows, open(rows_json, "w"))
    out, _ = run.harness(b, ["c19", "names", rows_json])
    unk = json.loads(out.strip().splitlines()[-1])["unknown"]
    if unk:
        raise ToolError(f"harness dispatch tables do not know: {unk}")
    if open(DRIVER_TABLE).read() != driver_table_text(rows):
        raise ToolError("harness/src/rec/c19_table.in is out of sync with the method table of spec/Wrappers.tla (run: python3 -m vc.p_c19 regen)")

    # ---- table-rot guard
    scanned, unknown, stale = rot_guard(rows)
    run.cov["rot_guard"] = dict(pub_fns_scanned=len(scanned), unknown=[dict(name=n_, where=w) for n_, w in unknown], stale_rows=stale)
    for s in stale:
        log(f"WARNING: method-table row {s} has no `pub fn` of that name in the scanned sources")
    if unknown:
        raise ToolError("table-rot guard: public functions unknown to the method table of spec/Wrappers.tla (add a row or an Excluded entry): "
                        + ", ".join(f"{n_} ({w})" for n_, w in unknown))
    log(f"[rot-guard] {len(scanned)} pub fns scanned in src/builtins/compiled and temporal_capi/src: all known to the method table")

    check_headers(run, enums)

    # ---- model negative control: a primary receiver with colliding fields must violate DistinctFields
    rc, txt, outp, dt = run._tlc(os.path.join(lib.SPEC, "mc/MC_Wrappers.tla"), os.path.join(lib.SPEC, "mc/MC_Wrappers_negdistinct.cfg"), 1, 300, tag="negdistinct")
    bad = "Invariant DistinctFields is violated" in txt
    run.cov["negative_controls"].append(dict(kind="model", control="colliding-fields receiver violates DistinctFields", detected=bad))
    if not bad:
        raise ToolError(f"model negative control: DistinctFields did not reject a receiver with colliding fields; see {outp}")
    log("[negctl] model: receiver with colliding fields rejected by DistinctFields")

    # ---- spec -> impl
    total, mm = replay(run, b, cases, tier)
    negative_control_replay(run, b, cases)

    # ---- impl -> spec
    seeds = [run.seed] if q else [run.seed, run.seed + 1, run.seed + 2, run.seed + 3]
    nev = 100000 if q else 400000
    distinct_events = set()
    first_trace = None
    for k, sd in enumerate(seeds):
        old = run.seed
        run.seed = sd
        tr = run.record(b, "c19", nev, label=f"c19_s{k}")
        run.seed = old
        first_trace = first_trace or tr
        cnt = sum(1 for _ in open(tr))
        if cnt < nev:
            log(f"WARNING: trace stopped after {cnt} of {nev} events (provider lock poisoned by a wrapper panic; the event is reported)")
        with open(tr) as f:
            for l in f:
                e = json.loads(l)
                if e.get("op") != "reset":
                    distinct_events.add(l[:l.rfind('"out"')] if '"out"' in l else l)
        accepted, tmm = run.validate("trace/Trace_Wrappers.tla", "trace/Trace_Wrappers.cfg", tr, timeout=1500)
        import glob as _glob                     # (a long trace is validated in parts: val_<label>.pNN.tlc.out)
        base_ = os.path.join(run.dir, "val_" + os.path.basename(tr).replace(".trace.ndjson", ""))
        txt = "".join(open(f_, errors="replace").read() for f_ in sorted(_glob.glob(base_ + ".tlc.out") + _glob.glob(base_ + ".p*.tlc.out")))
        ms_ = re.findall(r"SPEC-CLAIMED (\d+) same (\d+)", txt)
        claimed_, same_ = sum(int(a_) for a_, _ in ms_), sum(int(b_) for _, b_ in ms_)
        if claimed_ == 0:
            raise ToolError("trace validation: the specification claimed a value on no event (vacuous)")
        run.cov["trace_runs"][-1]["events_with_spec_computed_value"] = claimed_
        run.cov["trace_runs"][-1]["events_equality_only"] = same_
        run.cov["trace_runs"][-1]["seed"] = sd

    # negative controls on the trace (each must be reported AT the corrupted event - the trace also holds known findings):
    # (1) wrapper made different from core, (2) wrapper and core both different from the spec's field, (3) wrong twin paired
    small = os.path.join(run.dir, "c19.small.trace.ndjson")
    with open(first_trace) as f, open(small, "w") as g:
        for i, l in enumerate(f):
            if i < 1500:
                g.write(l)

    def corrupt_wc(e):
        if e.get("op") == "Wrap.capi.PlainTime.minute" and e["out"]["wrapper"]["kind"] == "ok":
            e["out"]["wrapper"]["val"] = (e["out"]["wrapper"]["val"] + 1) % 60
            return "wrapper!=core"

    def corrupt_spec(e):
        if e.get("op") == "Wrap.ZonedDateTime.day" and "off" in e["args"]["recv"] and "cal" not in e["args"]["recv"] and e["out"]["wrapper"]["kind"] == "ok":
            v = e["out"]["wrapper"]["val"] % 28 + 1
            e["out"]["wrapper"]["val"] = v
            e["out"]["core"]["val"] = v
            return "wrapper=core!=spec"

    def corrupt_pairing(e):
        if e.get("op") == "Wrap.ZonedDateTime.second":
            e["args"]["twin"] = "ZonedDateTime.minute_with_provider"
            return "driver-paired-wrong-twin"
    for c in (corrupt_wc, corrupt_spec, corrupt_pairing):
        evs = [json.loads(l) for l in open(small)]
        hit = None
        for i, e in enumerate(evs):
            why = c(e)
            if why:
                hit = (i + 1, why)
                break
        if not hit:
            raise ToolError(f"negative control {c.__name__}: no event to corrupt")
        bad = os.path.join(run.dir, f"c19.{c.__name__}.trace.ndjson")
        with open(bad, "w") as f:
            for e in evs:
                f.write(json.dumps(e) + "\n")
        _, tmm = run.validate("trace/Trace_Wrappers.tla", "trace/Trace_Wrappers.cfg", bad, label="negctl_" + c.__name__, count=False, expect_reject=True)
        found = any(m.get("i") == hit[0] and m.get("expected", {}).get("why") == hit[1] for m in tmm)
        run.cov["negative_controls"].append(dict(kind="trace", control=c.__name__, rejected=bool(found)))
        if not found:
            raise ToolError(f"negative control {c.__name__}: corrupted event {hit} was NOT reported by the trace spec (binding broken)")
        log(f"[negctl] {c.__name__}: corrupted event {hit[0]} reported ({hit[1]})")

    run.cov["rule"] = ("replay: every (receiver, method-table row, argument tuple) transition of the bounded Wrappers instance is one case "
                      "(distinct TLC states); a case is non-trivial when it executes a wrapper and its core twin on a constructible receiver. "
                      "traces: seeded pairwise wrapper-vs-core events over the full-size domains, every row visited in every sweep; "
                      "distinct = distinct (op, args) pairs")
    distinct_cases = len(set(open(cases).read().splitlines()))
    run.cov["distinct_nontrivial"] = distinct_cases + len(distinct_events)
    run.assumptions += [
        "wrapper/twin functions are reached through three harness dispatch tables whose keys are the names of the functions they call; which wrapper belongs to which twin comes from the spec's method table",
        "FFI values are observed through the FFI's own getters (opaque inner fields are crate-private), FFI enum variants through their C discriminants",
        "harness arithmetic (epoch day, second, nanosecond) -> i128 epoch nanoseconds",
        "a compiled-data wrapper is not run where its core twin has just panicked on the same arguments (it would poison the process-wide provider lock; panics are C03's subject)",
        "Now::* (reads the clock) and functions whose core is 'Not yet implemented' are listed in the method table as excluded and not exercised",
    ]


def _same(a, b):
    ka, kb = a.get("kind"), b.get("kind")
    return ka == kb and not str(ka).startswith("unknown") and (ka != "ok" or a.get("val") == b.get("val"))


def replay_file(path, seed):
    """bin/vcheck C19 --replay FILE: re-execute the wrapper/core pair of a violation file against the current tree and
    re-judge it (wrapper = core, and = the spec's expectation recorded in the file where the spec claimed one)."""
    v = json.load(open(path))
    first = v["first"]
    b = lib.build_harness("dev")
    args = first.get("args") or first.get("event", {}).get("args")
    exp = first.get("expected") or {}
    if first.get("direction") == "trace":
        exp = exp.get("spec", {"kind": "same"})
    r = lib.sh([b, "exec", json.dumps(dict(op=first["op"], args=args))])
    line = [l for l in r.stdout.strip().splitlines() if l.startswith("{")]
    if not line:
        print("TOOL-ERROR: harness produced no outcome:", r.stdout[-400:])
        return 2
    obs = json.loads(line[-1])
    print("case:", json.dumps(dict(op=first["op"], args=args)))
    print("spec expectation:", json.dumps(exp))
    print("observed now:", json.dumps(obs))
    ok = _same(obs["wrapper"], obs["core"]) and (exp.get("kind") in (None, "same") or _same(obs["wrapper"], exp))
    if ok:
        print("wrapper = core" + ("" if exp.get("kind") in (None, "same") else " = spec") + ": the case now agrees")
        return 0
    print(f"VIOLATION property=C19 replay={path}")
    return 1


if __name__ == "__main__":
    if len(sys.argv) > 1 and sys.argv[1] == "regen":
        r = lib.Run("C19", "quick", lib.DEFAULT_SEED)
        r.gen("mc/MC_Wrappers.tla", "mc/MC_Wrappers_quick.cfg".replace("mc/MC_Wrappers_quick", "gen/Gen_C19_quick"), workers=4, name="quick")
        rows = parse_lines(os.path.join(r.dir, "gen_quick.tlc.out"), "ROW")
        open(DRIVER_TABLE, "w").write(driver_table_text(rows))
        print("wrote", DRIVER_TABLE, len([x for x in rows if x["gen"]]), "rows")
