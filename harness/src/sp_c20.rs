//! Special runner `tvh c20 ...` for C20 (things that do not fit replay/record). Fill in.
pub fn main(a: &[String]) {
    let _ = a;
    eprintln!("not implemented");
    std::process::exit(2);
}
