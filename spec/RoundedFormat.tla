----------------------- MODULE RoundedFormat ---------------------------
(***************************************************************************)
(* toString with a precision (fractionalSecondDigits 0..9, smallestUnit     *)
(* minute..nanosecond) AND a rounding mode: the value is first rounded to   *)
(* the precision's increment by the type's own rounding rule - RoundTime    *)
(* for plain times (wrapping past midnight), RoundISODateTime for plain     *)
(* date-times (carrying into the date, range-checked), and                  *)
(* RoundTemporalInstant (as if positive) for instants and zoned date-times  *)
(* - and then printed with exactly that many digits (C07 meets C11).        *)
(* Composes the value-level rounding operators (TimeOfDay, DateTimeArith,   *)
(* Instant) with the writer (FormatOps).                                    *)
(***************************************************************************)
EXTENDS DateTimeArith, Duration, FormatOps

\* precision -> (unit, increment) per ToSecondsStringPrecisionRecord
PrecUnit(p) == CASE p = -2 -> "minute" [] p = 0 -> "second" [] p \in 1..3 -> "millisecond" [] p \in 4..6 -> "microsecond" [] OTHER -> "nanosecond"
PrecInc(p) == CASE p \in {1, 4, 7} -> 100 [] p \in {2, 5, 8} -> 10 [] OTHER -> 1

Flat(r) == [y |-> r.date.y, m |-> r.date.m, d |-> r.date.d, cal |-> "iso8601", h |-> r.time.h, mi |-> r.time.mi, s |-> r.time.s, ms |-> r.time.ms, us |-> r.time.us, ns |-> r.time.ns]
\* the minute precision can only be requested through smallestUnit
\* a cell with both = TRUE passes smallestUnit AND a disagreeing fractionalSecondDigits: smallestUnit wins (ToSecondsStringPrecisionRecord)
Both(c) == "both" \in DOMAIN c /\ c.both
SuOfP(p) == CASE p = -2 -> "minute" [] p = 0 -> "second" [] p = 3 -> "millisecond" [] p = 6 -> "microsecond" [] OTHER -> "nanosecond"
\* (viaPrec: the minute precision given as the precision itself - Precision::Minute - instead of through smallestUnit)
ViaPrec(c) == "viaPrec" \in DOMAIN c /\ c.viaPrec
Opts(c, mode) == IF ViaPrec(c) THEN [prec |-> -2, su |-> "", mode |-> mode] ELSE IF Both(c) THEN [prec |-> IF c.p = 3 THEN 7 ELSE 3, su |-> SuOfP(c.p), mode |-> mode]
                 ELSE [prec |-> IF c.p = -2 THEN -1 ELSE c.p, su |-> IF c.p = -2 THEN "minute" ELSE "", mode |-> mode]
CaseFor(c, mode) ==
  LET u == PrecUnit(c.p)  inc == PrecInc(c.p)  p == c.p IN
  CASE c.ty = "PlainTime" ->
         [op |-> "Fmt.PlainTime", args |-> [v |-> c.t] @@ Opts(c, mode), out |-> Ok(Chars(FmtPlainTime(PlainTimeRound(c.t, u, inc, mode).val, p)))]
    [] c.ty = "PlainDateTime" ->
         LET r == RoundDT(DT(c.d, c.t), u, inc, mode)
         IN [op |-> "Fmt.PlainDateTime", args |-> [v |-> Flat(DT(c.d, c.t))] @@ Opts(c, mode),
             out |-> IF r.kind = "ok" THEN Ok(Chars(FmtPlainDateTime(Flat(r.val), p, "auto"))) ELSE ErrRange]
    [] c.ty = "Instant" ->
         LET r == InstantRound(c.i, u, inc, mode)
         IN [op |-> "Fmt.Instant", args |-> [v |-> c.i] @@ Opts(c, mode),
             \* a rounded value beyond the limit: Temporal's own text is an assertion (! CreateTemporalInstant) - any non-panicking outcome
             out |-> IF r.kind = "ok" THEN Ok(Chars(FmtInstant(r.val, p, <<>>))) ELSE [kind |-> "any"]]
    [] c.ty = "Duration" ->
         \* Duration.toString: the time part (hours..nanoseconds as one exact total; days are not part of it) is rounded with the signed
         \* rule and re-balanced up to the larger of the default largest unit and seconds; precision auto / 9 digits print the fields as they are
         LET t == RoundBig(TimeNs(c.D), IncNs(inc, u), mode)
             A == IF p = 9 THEN AbsDur(c.D) ELSE BalanceWith(AbsDur(c.D), SplitSec(Abs(t)))
             R == IF DurSign(c.D) = -1 THEN NegDur(A) ELSE A
         IN [op |-> "Fmt.Duration", args |-> [v |-> c.D] @@ Opts(c, mode),
             out |-> IF p = -2 THEN ErrRange ELSE IF ~ValidDur(R) THEN ErrRange ELSE Ok(Chars(FmtDurationA(c.D, A, p)))]
    [] c.ty = "ZonedDateTime" ->
         LET r == InstantRound(c.i, u, inc, mode)
             v == [ns |-> c.i, tz |-> Chars(c.tz), cal |-> "iso8601"]
         IN [op |-> "Fmt.ZonedDateTime", args |-> [v |-> v] @@ Opts(c, mode),
             out |-> IF r.kind = "ok" THEN Ok(Chars(FmtZoned([v EXCEPT !.ns = r.val], p, "auto", "auto", "auto"))) ELSE [kind |-> "any"]]

\* class label: type / precision / rounding class of the sub-precision remainder / mode
RemCls(c) ==
  LET n == IncNs(PrecInc(c.p), PrecUnit(c.p))
      x == IF c.ty \in {"PlainTime", "PlainDateTime"} THEN TimeNsOf(c.t) ELSE IF c.ty = "Duration" THEN TimeNs(c.D) ELSE c.i
  IN RoundCls(x, n)
ClsOf(c, mode) == c.ty \o "/p" \o ToString(c.p) \o (IF Both(c) THEN "+digits" ELSE IF ViaPrec(c) THEN "+as-precision" ELSE "") \o "/" \o RemCls(c) \o "/" \o mode

=============================================================================
