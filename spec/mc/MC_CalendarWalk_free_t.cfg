SPECIFICATION Spec
CONSTANTS
  Free = TRUE
  FieldsOf <- NoFields
  Find <- NoFind
  Starts <- FreeStarts
  OtherCals = {}
  MaxDim = 3
  DiySet = {6, 7, 8}
  FreeHi = 15
  MaxEraChanges = 1
  Bug = "none"
INVARIANTS WalkRule StepExclusive DiagnosisAgrees Bounds OrderIso DoyCounts YearTotals MonthTotals RebuildKeysInjective EraAffine
CHECK_DEADLOCK FALSE
