"""C06 — times are integers mod 24 h, instants integers on the epoch line."""
import os
from . import lib
from .props import quick, corrupt_first, bump_big, head_of


def run(run):
    q = quick(run)
    for profile in ("dev", "release"):
        b = lib.build_harness(profile)
        if profile == "dev":
            c1, _ = run.gen("mc/MC_TimeOfDay.tla", "gen/Gen_C06_time.cfg", workers=6, name="time")
            c2, _ = run.gen("mc/MC_Instant.tla", "gen/Gen_C06_instant.cfg", workers=4, name="instant")
        run.replay(b, c1, label="time", profile=profile)
        run.replay(b, c2, label="instant", profile=profile)
        if profile == "dev":
            run.negative_control_replay(b, c2, corrupt_first(lambda e: e["op"] in ("Instant.add", "Instant.subtract", "Instant.epochMs") and e["out"]["kind"] == "ok", lambda e: bump_big(e["out"]["val"])))
        tr = run.record(b, "c06", (30000 if q else 400000) if profile == "dev" else (10000 if q else 100000), profile=profile)
        run.validate("trace/Trace_Time.tla", "trace/Trace_Time.cfg", tr, label="c06." + profile)
        if profile == "dev":
            small = head_of(run, tr, 400, "c06.small.trace.ndjson")
            run.negative_control_trace("trace/Trace_Time.tla", "trace/Trace_Time.cfg", small,
                                       corrupt_first(lambda e: e.get("op") in ("PlainTime.add", "PlainTime.subtract") and e["out"]["kind"] == "ok",
                                                     lambda e: e["out"]["val"].__setitem__("ns", (e["out"]["val"]["ns"] + 1) % 1000)))
    run.cov["rule"] = ("replay: every transition of the bounded TimeOfDay / Instant machines (boundary times x boundary durations incl. fields above 2^63 ns, all time largest units); "
                      "traces: seeded sessions with exactly representable huge fields, both arithmetic profiles (overflow-checked dev, wrapping release)")
    run.cov["distinct_nontrivial"] = run.cov["evaluations"]
