------------------------------- MODULE Partial -------------------------------
(***************************************************************************)
(* Merging a partial field record into a receiver (`with`) or into the      *)
(* type's defaults (`from_partial`), ISO calendar: PlainDate, PlainTime,    *)
(* PlainDateTime, PlainYearMonth and the date/time part of ZonedDateTime    *)
(* partials.  Pure operators (C17); the session state machine and the laws  *)
(* are in PartialMachine.                                                   *)
(*                                                                          *)
(* A partial is a record whose DOMAIN is the set of supplied fields         *)
(*   year month monthCode day hour minute second millisecond microsecond    *)
(*   nanosecond                                                             *)
(* (the JSON object the harness logs).  Values are in the harness's shape:  *)
(*   date [y,m,d]  time [h,mi,s,ms,us,ns]  datetime = both  yearmonth       *)
(*   [y,m,rd] (rd = hidden reference day).                                  *)
(* Outcomes: Ok(v) | ErrRange | ErrType. A record that lacks a required     *)
(* field is a TypeError even when a supplied field is out of range as well  *)
(* (Temporal checks the required fields before resolving and regulating).   *)
(***************************************************************************)
EXTENDS DateArith, TLC

DateKeys == {"year", "month", "monthCode", "day"}
YmKeys == {"year", "month", "monthCode"}
TimeKeys == {"hour", "minute", "second", "millisecond", "microsecond", "nanosecond"}

Sup(p, k) == k \in DOMAIN p
Fld(p, k, dflt) == IF k \in DOMAIN p THEN p[k] ELSE dflt
ErrAny == [kind |-> "err"]

Clamp(x, lo, hi) == IF x < lo THEN lo ELSE IF x > hi THEN hi ELSE x

(* ---------------- month / month code (ISO calendar: M01..M12, no leap months) ---------------- *)
Codes == <<"M01", "M02", "M03", "M04", "M05", "M06", "M07", "M08", "M09", "M10", "M11", "M12">>
CodeOf(m) == Codes[m]
CodeNum(mc) == IF \E i \in 1..12 : Codes[i] = mc THEN CHOOSE i \in 1..12 : Codes[i] = mc ELSE 0    \* 0: not a month of this calendar
BadCode(p) == Sup(p, "monthCode") /\ CodeNum(p.monthCode) = 0
Conflict(p) == Sup(p, "monthCode") /\ Sup(p, "month") /\ CodeNum(p.monthCode) # 0 /\ p.month # CodeNum(p.monthCode)
HasMonth(p) == Sup(p, "month") \/ Sup(p, "monthCode")
\* the month the record asks for (raw: may be out of range when it comes from `month`)
RawMonth(p, dflt) == IF Sup(p, "monthCode") THEN CodeNum(p.monthCode) ELSE Fld(p, "month", dflt)

(* ---------------- limits ---------------- *)
YearOK(y) == y >= -271821 /\ y <= 275760
DateInLimits(dt) == YearOK(dt.y) /\ InDateRange(DFC(dt))
YmInLimits(y, m) == YearOK(y) /\ ~(y = -271821 /\ m < 4) /\ ~(y = 275760 /\ m > 9)
TimeIsZero(t) == t.h = 0 /\ t.mi = 0 /\ t.s = 0 /\ t.ms = 0 /\ t.us = 0 /\ t.ns = 0
\* date-times: strictly after -271821-04-19T00:00, up to +275760-09-13T23:59:59.999999999
DateTimeInLimits(dt, t) == DateInLimits(dt) /\ ~(DFC(dt) = MinDay /\ TimeIsZero(t))

(* ---------------- regulate (RegulateISODate / RegulateTime) ---------------- *)
TimeRec(h, mi, s, ms, us, ns) == [h |-> h, mi |-> mi, s |-> s, ms |-> ms, us |-> us, ns |-> ns]
TimeOK(t) == t.h \in 0..23 /\ t.mi \in 0..59 /\ t.s \in 0..59 /\ t.ms \in 0..999 /\ t.us \in 0..999 /\ t.ns \in 0..999
RegDate(y, m, d, ovf) ==
  IF ovf = "reject" THEN (IF m \in 1..12 /\ d >= 1 /\ d <= DIM(y, m) THEN Ok(Date(y, m, d)) ELSE ErrRange)
  ELSE LET m2 == Clamp(m, 1, 12) IN Ok(Date(y, m2, Clamp(d, 1, DIM(y, m2))))
RegTime(t, ovf) ==
  IF ovf = "reject" THEN (IF TimeOK(t) THEN Ok(t) ELSE ErrRange)
  ELSE Ok(TimeRec(Clamp(t.h, 0, 23), Clamp(t.mi, 0, 59), Clamp(t.s, 0, 59), Clamp(t.ms, 0, 999), Clamp(t.us, 0, 999), Clamp(t.ns, 0, 999)))

TimeOf(v) == TimeRec(v.h, v.mi, v.s, v.ms, v.us, v.ns)
DateOf(v) == Date(v.y, v.m, v.d)
DT(dt, t) == [y |-> dt.y, m |-> dt.m, d |-> dt.d, h |-> t.h, mi |-> t.mi, s |-> t.s, ms |-> t.ms, us |-> t.us, ns |-> t.ns]
YM(y, m, rd) == [y |-> y, m |-> m, rd |-> rd]
MidnightRec == TimeRec(0, 0, 0, 0, 0, 0)

\* raw (unregulated) time after taking the supplied fields and the base for the others
MergeTime(base, p) == TimeRec(Fld(p, "hour", base.h), Fld(p, "minute", base.mi), Fld(p, "second", base.s),
                              Fld(p, "millisecond", base.ms), Fld(p, "microsecond", base.us), Fld(p, "nanosecond", base.ns))

(* ---------------- the date part: merge, then regulate, then limits ---------------- *)
\* base = the receiver's [y, m, d]; all of year, month, day are known
MergeDate(base, p, ovf) ==
  IF BadCode(p) \/ Conflict(p) THEN ErrRange
  ELSE LET y == Fld(p, "year", base.y)
       IN IF ~YearOK(y) THEN ErrRange      \* no date of such a year is within the limits, whatever month and day
          ELSE RegDate(y, RawMonth(p, base.m), Fld(p, "day", base.d), ovf)
DateChecked(r) == IF r.kind = "ok" /\ ~DateInLimits(r.val) THEN ErrRange ELSE r

\* is there, among the supplied fields alone, a definite RangeError reason?
DefiniteRange(p, ovf) ==
  \/ BadCode(p) \/ Conflict(p)
  \/ (Sup(p, "year") /\ ~YearOK(p.year))
  \/ /\ ovf = "reject"
     /\ \/ (Sup(p, "month") /\ p.month \notin 1..12)
        \/ (Sup(p, "day") /\ p.day \notin 1..31)
        \/ ~TimeOK(MergeTime(MidnightRec, p))
MissingDate(p) == ~Sup(p, "year") \/ ~HasMonth(p) \/ ~Sup(p, "day")
MissingYm(p) == ~Sup(p, "year") \/ ~HasMonth(p)
\* a record that lacks a required field is a TypeError even if a supplied field is also out of range: Temporal checks the required
\* fields (CalendarResolveFields step 1) before it resolves the month and regulates the date
TypeOr(p, ovf) == ErrType

(* ---------------- PlainDate ---------------- *)
WithDate(recv, p, ovf) ==
  IF DOMAIN p = {} THEN ErrType ELSE DateChecked(MergeDate(recv, p, ovf))
FromPartialDate(p, ovf) ==
  IF MissingDate(p) THEN TypeOr(p, ovf) ELSE DateChecked(MergeDate(Date(0, 0, 0), p, ovf))
NewDate(y, m, d, ovf) == IF ~YearOK(y) THEN ErrRange ELSE DateChecked(RegDate(y, m, d, ovf))

(* ---------------- PlainTime ---------------- *)
WithTime(recv, p, ovf) == IF DOMAIN p = {} THEN ErrType ELSE RegTime(MergeTime(recv, p), ovf)
FromPartialTime(p, ovf) == IF DOMAIN p = {} THEN ErrType ELSE RegTime(MergeTime(MidnightRec, p), ovf)
NewTime(t, ovf) == RegTime(t, ovf)

(* ---------------- PlainDateTime ---------------- *)
Combine(rd, rt) ==
  IF rd.kind # "ok" THEN rd ELSE IF rt.kind # "ok" THEN rt
  ELSE IF DateTimeInLimits(rd.val, rt.val) THEN Ok(DT(rd.val, rt.val)) ELSE ErrRange
WithDateTime(recv, p, ovf) ==
  IF DOMAIN p = {} THEN ErrType
  ELSE Combine(MergeDate(DateOf(recv), p, ovf), RegTime(MergeTime(TimeOf(recv), p), ovf))
FromPartialDateTime(p, ovf) ==
  IF DOMAIN p = {} THEN ErrType
  ELSE IF MissingDate(p) THEN TypeOr(p, ovf)
  ELSE Combine(MergeDate(Date(0, 0, 0), p, ovf), RegTime(MergeTime(MidnightRec, p), ovf))
NewDateTime(v, ovf) ==
  IF ~YearOK(v.y) THEN ErrRange ELSE Combine(RegDate(v.y, v.m, v.d, ovf), RegTime(TimeOf(v), ovf))

(* ---------------- PlainYearMonth (fields year, month, monthCode; hidden reference day 1) ---------------- *)
MergeYm(base, p, ovf) ==
  IF BadCode(p) \/ Conflict(p) THEN ErrRange
  ELSE LET y == Fld(p, "year", base.y)
           m == RawMonth(p, base.m)
       IN IF ovf = "reject" /\ m \notin 1..12 THEN ErrRange
          ELSE LET m2 == Clamp(m, 1, 12) IN IF YmInLimits(y, m2) THEN Ok(YM(y, m2, 1)) ELSE ErrRange
WithYm(recv, p, ovf) == IF DOMAIN p = {} THEN ErrType ELSE MergeYm(recv, p, ovf)
FromPartialYm(p, ovf) == IF MissingYm(p) THEN TypeOr(p, ovf) ELSE MergeYm(YM(0, 0, 1), p, ovf)

(* ---------------- ZonedDateTime partial, date/time part, in a fixed-offset zone (offset in seconds) ---------------- *)
SecOfDayI(t) == (t.h * 60 + t.mi) * 60 + t.s
SubNsI(t) == (t.ms * 1000 + t.us) * 1000 + t.ns
\* instant of a local date-time at a fixed offset, as (day, second of day); limits of Instant: |epoch ns| <= 8.64e21
ZonedInstant(dt, t, off) ==
  LET sod == SecOfDayI(t) - off
  IN [n |-> DFC(dt) + sod \div 86400, s |-> sod % 86400, sub |-> SubNsI(t)]
InstantInLimits(i) == i.n >= -100000000 /\ (i.n < 100000000 \/ (i.n = 100000000 /\ i.s = 0 /\ i.sub = 0))
EpochNsBig(i) == Add(K9(Add(MulSmall(FromInt(i.n), 86400), FromInt(i.s))), FromInt(i.sub))
FromPartialZoned(p, ovf, off) ==
  IF MissingDate(p) THEN TypeOr(p, ovf)
  ELSE LET rd == DateChecked(MergeDate(Date(0, 0, 0), p, ovf))
           rt == RegTime(MergeTime(MidnightRec, p), ovf)
       IN IF rd.kind # "ok" THEN rd ELSE IF rt.kind # "ok" THEN rt
          ELSE LET i == ZonedInstant(rd.val, rt.val, off)
               IN IF InstantInLimits(i) THEN Ok(DT(rd.val, rt.val) @@ [ens |-> EpochNsBig(i)]) ELSE ErrRange

(* ---------------- one entry point per (type, operation) ---------------- *)
Types == {"date", "time", "datetime", "yearmonth", "zoned"}
With(ty, recv, p, ovf) ==
  CASE ty = "date" -> WithDate(recv, p, ovf)
    [] ty = "time" -> WithTime(recv, p, ovf)
    [] ty = "datetime" -> WithDateTime(recv, p, ovf)
    [] ty = "yearmonth" -> WithYm(recv, p, ovf)
FromPartial(ty, p, ovf) ==
  CASE ty = "date" -> FromPartialDate(p, ovf)
    [] ty = "time" -> FromPartialTime(p, ovf)
    [] ty = "datetime" -> FromPartialDateTime(p, ovf)
    [] ty = "yearmonth" -> FromPartialYm(p, ovf)
    [] ty = "zoned" -> FromPartialZoned(p, ovf, 0)
\* constructor with every field given positionally (v has the value's own shape)
New(ty, v, ovf) ==
  CASE ty = "date" -> NewDate(v.y, v.m, v.d, ovf)
    [] ty = "time" -> NewTime(v, ovf)
    [] ty = "datetime" -> NewDateTime(v, ovf)

\* does an observed outcome agree with the specified one?
Agrees(exp, obs) == IF exp.kind = "err" THEN obs.kind \in {"type", "range"} ELSE exp = obs

(* ---------------- the receiver's own fields as a partial (for the identity law) ---------------- *)
OwnFields(ty, v) ==
  CASE ty = "date" -> [year |-> v.y, month |-> v.m, monthCode |-> CodeOf(v.m), day |-> v.d]
    [] ty = "yearmonth" -> [year |-> v.y, month |-> v.m, monthCode |-> CodeOf(v.m)]
    [] ty = "time" -> [hour |-> v.h, minute |-> v.mi, second |-> v.s, millisecond |-> v.ms, microsecond |-> v.us, nanosecond |-> v.ns]
    [] ty = "datetime" -> [year |-> v.y, month |-> v.m, monthCode |-> CodeOf(v.m), day |-> v.d,
                           hour |-> v.h, minute |-> v.mi, second |-> v.s, millisecond |-> v.ms, microsecond |-> v.us, nanosecond |-> v.ns]
Restrict(f, S) == [k \in (DOMAIN f \cap S) |-> f[k]]

(* ---------------- class label of a call (what known findings key on) ---------------- *)
\* which fields carry the month: m = month only, c = monthCode only, mc = both, - = neither
MonthSrc(p) == IF Sup(p, "month") THEN (IF Sup(p, "monthCode") THEN "mc" ELSE "m") ELSE IF Sup(p, "monthCode") THEN "c" ELSE "-"
\* first problem of the merged record in a fixed order; base = receiver's fields or the type's defaults (date 0/0/0 = unknown)
Problem(ty, op, base, p) ==
  LET hasDate == ty # "time"
      hasDay == ty \in {"date", "datetime", "zoned"}
      hasTime == ty \in {"time", "datetime", "zoned"}
      y == IF hasDate THEN Fld(p, "year", base.y) ELSE 0
      m == IF hasDate THEN RawMonth(p, base.m) ELSE 1
      m2 == Clamp(m, 1, 12)
      d == IF hasDay THEN Fld(p, "day", base.d) ELSE 1
      t == IF hasTime THEN MergeTime(IF op = "with" THEN TimeOf(base) ELSE MidnightRec, p) ELSE MidnightRec
  IN IF DOMAIN p = {} THEN "empty"
     ELSE IF op = "from_partial" /\ ((hasDay /\ MissingDate(p)) \/ (ty = "yearmonth" /\ MissingYm(p))) THEN "missing"
     ELSE IF hasDate /\ BadCode(p) THEN "badcode"
     ELSE IF hasDate /\ Conflict(p) THEN "month!=code"
     ELSE IF hasDate /\ ~YearOK(y) THEN "year-limits"
     ELSE IF hasDate /\ m < 1 THEN "month=0"
     ELSE IF hasDate /\ m > 12 THEN "month>12"
     ELSE IF hasDay /\ d < 1 THEN "day=0"
     ELSE IF hasDay /\ d > DIM(y, m2) THEN (IF Sup(p, "day") THEN "day>dim" ELSE "recvday>dim")
     ELSE IF t.h > 23 THEN "hour>23" ELSE IF t.mi > 59 THEN "minute>59" ELSE IF t.s > 59 THEN "second>59"
     ELSE IF t.ms > 999 THEN "ms>999" ELSE IF t.us > 999 THEN "us>999" ELSE IF t.ns > 999 THEN "ns>999"
     ELSE IF hasDay /\ ~DateTimeInLimits(Date(y, m2, d), IF ty = "date" THEN TimeRec(12, 0, 0, 0, 0, 0) ELSE t) THEN "limits"
     ELSE IF ty = "yearmonth" /\ ~YmInLimits(y, m2) THEN "limits"
     ELSE "ok"
\* the month source is part of the label wherever the month fields play a role (not for empty / missing / limit problems)
Cls(ty, op, base, p, ovf) ==
  LET pr == Problem(ty, op, base, p)
  IN (IF pr \in {"empty", "missing", "year-limits", "limits"} THEN "*" ELSE MonthSrc(p)) \o "/" \o pr \o "/" \o ovf
\* constructors: every field supplied positionally (no month code); raw values, possibly out of range
NewAsPartial(ty, v) ==
  CASE ty = "date" -> [year |-> v.y, month |-> v.m, day |-> v.d]
    [] ty = "time" -> [hour |-> v.h, minute |-> v.mi, second |-> v.s, millisecond |-> v.ms, microsecond |-> v.us, nanosecond |-> v.ns]
    [] ty = "datetime" -> [year |-> v.y, month |-> v.m, day |-> v.d,
                           hour |-> v.h, minute |-> v.mi, second |-> v.s, millisecond |-> v.ms, microsecond |-> v.us, nanosecond |-> v.ns]
=============================================================================
