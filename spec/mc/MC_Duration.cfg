SPECIFICATION Spec
CONSTANTS
  Durs <- ValidSet
  Candidates <- CandidateSet
  RoundOpts <- MCRoundOpts
  OneStep = TRUE
INVARIANTS CurValid OutValid SignLaws AddLaws CmpLaws RoundLaws TotalLaws NewLaws PartialLaws
CHECK_DEADLOCK FALSE
