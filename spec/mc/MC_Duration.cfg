SPECIFICATION Spec
CONSTANTS
  Durs <- ValidSet
  Candidates <- CandidateSet
  RoundOpts <- MCRoundOpts
  OneStep = TRUE
INVARIANTS CurValid OutValid SignLaws AddLaws CmpLaws RoundLaws TotalLaws NewLaws
CHECK_DEADLOCK FALSE
