//! C09 sessions: durations as a signed quantity without a reference date.
use super::Tracer;
use crate::gen::*;
use crate::js::big;
use crate::rng::Rng;
use serde_json::{json, Value};

const P32: i128 = 1 << 32;
const P53: i128 = 1 << 53;

/// arbitrary ten-field vector of integral doubles: often valid, sometimes mixed signs / beyond a limit
fn any_vector(r: &mut Rng) -> Value {
    let mut f = [0i128; 10];
    let sg: i128 = if r.chance(1, 2) { 1 } else { -1 };
    let caps: [i128; 10] = [P32, P32, P32, P53 / 86_400, P53 / 3600, P53 / 60, P53, P53 * 1000, P53 * 1_000_000, P53 * 1_000_000_000];
    for i in 0..10 {
        f[i] = match r.range(0, 11) { 0..=5 => 0, 6 | 7 => r.range(0, 100) as i128, 8 => exact_f64_int(r, caps[i] / 4), 9 => caps[i] - 1 - (if i < 3 { 0 } else { r.range(0, 1) as i128 }), 10 => caps[i], _ => exact_f64_int(r, caps[i] * 2) };
        // keep exactly representable
        let fl = f[i] as f64; if fl as i128 != f[i] { f[i] = fl as i128; }
        f[i] *= if r.chance(1, 12) { -sg } else { sg };
    }
    dur10(f[0], f[1], f[2], f[3], f[4], f[5], f[6], f[7], f[8], f[9])
}
/// a valid calendar-free duration (time + days), total well inside the limit
fn time_day_dur(r: &mut Rng) -> Value {
    let sg: i128 = if r.chance(1, 2) { 1 } else { -1 };
    let lim: i128 = 1 << 49;
    let f = |r: &mut Rng, num: i128, den: i128| -> i128 { match r.range(0, 9) { 0..=3 => 0, 4..=6 => r.range(0, 100) as i128, 7 => r.range(0, 2_000_000_000) as i128, _ => exact_f64_int(r, lim * num / den) } };
    dur10(0, 0, 0, sg * f(r, 1, 86_400), sg * f(r, 1, 3600), sg * f(r, 1, 60), sg * f(r, 1, 1), sg * f(r, 1000, 1), sg * f(r, 1_000_000, 1), sg * f(r, 1_000_000_000, 1))
}
fn cal_dur(r: &mut Rng) -> Value { let sg: i128 = if r.chance(1, 2) { 1 } else { -1 }; dur10(sg * r.range(0, 2) as i128, sg * r.range(0, 3) as i128, sg * r.range(0, 2) as i128, sg * r.range(0, 9) as i128, sg * r.range(0, 30) as i128, 0, 0, 0, 0, 0) }

pub fn drive(t: &mut Tracer, r: &mut Rng, n: usize) {
    let tunits = ["day", "hour", "minute", "second", "millisecond", "microsecond", "nanosecond"];
    while t.n < n {
        match r.range(0, 9) {
            0 => { t.call("Duration.new", json!({"dur": any_vector(r)})); }
            1 => { // the same kind of vector as a property bag with a random subset of its fields (sometimes none, sometimes all)
                let v = any_vector(r); let mut p = serde_json::Map::new();
                let keep = match r.range(0, 5) { 0 => 0, 1 => 100, _ => r.range(10, 90) };
                for (k, x) in v.as_object().unwrap() { if r.range(0, 99) < keep { p.insert(k.clone(), x.clone()); } }
                t.call("Duration.fromPartial", json!({"p": Value::Object(p)})); }
            2 => { let d = if r.chance(1, 3) { cal_dur(r) } else { time_day_dur(r) };
                   t.call("Duration.negated", json!({"recv": d.clone()})); t.call("Duration.abs", json!({"recv": d.clone()})); t.call("Duration.sign", json!({"recv": d.clone()})); t.call("Duration.timeInRange", json!({"recv": d})); }
            3 | 4 => { let a = if r.chance(1, 8) { cal_dur(r) } else { time_day_dur(r) }; let b = if r.chance(1, 8) { cal_dur(r) } else { time_day_dur(r) };
                   let op = if r.chance(1, 2) { "Duration.add" } else { "Duration.subtract" };
                   t.call(op, json!({"recv": a.clone(), "other": b.clone()}));
                   // the commuted call: the trace spec requires both to be explained by the same exact sum
                   if op == "Duration.add" { t.call(op, json!({"recv": b, "other": a})); } }
            5 => { let a = if r.chance(1, 10) { cal_dur(r) } else { time_day_dur(r) };
                   let b = match r.range(0, 3) { 0 => a.clone(), 1 => cal_dur(r), _ => time_day_dur(r) };
                   t.call("Duration.compare", json!({"recv": a.clone(), "other": b.clone()})); t.call("Duration.compare", json!({"recv": b, "other": a})); }
            6 | 7 => { // round: smallest / largest among day..ns, admissible increment
                let sm = *r.pick(&tunits); let lgs: Vec<&str> = tunits.iter().cloned().filter(|u| unit_rank(u) >= unit_rank(sm)).collect(); let lg = *r.pick(&lgs);
                let inc = if sm == "day" { r.range(1, 7) } else { *r.pick(&time_incs(sm)) };
                let d = if r.chance(1, 12) { cal_dur(r) } else { time_day_dur(r) };
                let mode = *r.pick(&MODES);
                t.call("Duration.round", json!({"recv": d, "st": {"largest": lg, "smallest": sm, "inc": inc, "mode": mode}})); }
            _ => { let d = if r.chance(1, 12) { cal_dur(r) } else { time_day_dur(r) };
                   let u = if r.chance(1, 15) { "week" } else { *r.pick(&tunits) };
                   t.call("Duration.total", json!({"recv": d, "unit": u})); }
        }
        t.reset();
    }
}
