//! C04 sessions: PlainDate add/subtract with mixed-unit durations (both overflow modes, time units that
//! must contribute whole days only) and until/since with every date largest unit, over the whole range.
use super::Tracer;
use crate::gen::*;
use crate::rng::Rng;
use serde_json::json;

fn mag(r: &mut Rng, small: i64, big_: i64) -> i128 {
    (match r.range(0, 9) { 0..=3 => 0, 4..=7 => r.range(0, small), 8 => r.range(0, big_), _ => r.range(0, 40) }) as i128
}

pub fn drive(t: &mut Tracer, r: &mut Rng, n: usize) {
    let units = ["day", "week", "month", "year"];
    while t.n < n {
        let mut cur = any_day(r);
        for _ in 0..r.range(4, 20) {
            let recv = date_json(cur);
            if r.chance(1, 2) {
                let sg: i128 = if r.chance(1, 2) { 1 } else { -1 };
                let huge = r.chance(1, 25);
                let (y, mo, w, d) = if huge {
                    (mag(r, 600_000, 4_294_967_295), mag(r, 7_000_000, 4_294_967_295), mag(r, 30_000_000, 4_294_967_295), mag(r, 200_000_000, 90_000_000_000))
                } else {
                    (mag(r, 3, 500_000), mag(r, 30, 6_000_000), mag(r, 8, 20_000_000), mag(r, 70, 150_000_000))
                };
                // time units: whole days only
                let (h, mi, s, ms, us, ns) = if r.chance(1, 3) {
                    (mag(r, 100, 2_000_000_000), mag(r, 3000, 2_000_000_000), mag(r, 200_000, 2_000_000_000), mag(r, 1000, 2_000_000_000) * 86_400, mag(r, 1000, 2_000_000_000), mag(r, 1_000_000, 2_000_000_000) * 1_000_000)
                } else { (0, 0, 0, 0, 0, 0) };
                let ovf = if r.chance(1, 2) { "constrain" } else { "reject" };
                let op = if r.chance(1, 2) { "PlainDate.add" } else { "PlainDate.subtract" };
                let mut args = json!({"recv": recv, "dur": dur10(sg * y, sg * mo, sg * w, sg * d, sg * h, sg * mi, sg * s, sg * ms, sg * us, sg * ns)});
                if r.chance(4, 5) { args["ovf"] = json!(ovf); }
                let out = t.call(op, args);
                if out["kind"] == "ok" {
                    // follow the implementation's answer (the trace spec resyncs the same way)
                    let v = &out["val"];
                    match (v["y"].as_i64(), v["m"].as_i64(), v["d"].as_i64()) {
                        (Some(y), Some(m), Some(d)) => { cur = days_from_civil(y, m, d); if !(MIN_DAY..=MAX_DAY).contains(&cur) { break; } }
                        _ => break,
                    }
                }
            } else {
                let other = match r.range(0, 5) { 0 => cur + r.range(-40, 40), 1 => cur + r.range(-800, 800), _ => any_day(r) }.clamp(MIN_DAY, MAX_DAY);
                let op = if r.chance(1, 2) { "PlainDate.until" } else { "PlainDate.since" };
                let u = *r.pick(&units);
                let st = if r.chance(1, 6) { json!({"largest": u, "smallest": "day", "inc": 1}) } else if u == "day" && r.chance(1, 3) { json!({}) } else { json!({"largest": u}) };
                t.call(op, json!({"recv": recv, "other": date_json(other), "st": st}));
            }
        }
        t.reset();
    }
}
