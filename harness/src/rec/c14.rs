//! C14 sessions: ZonedDateTime add/subtract/until/since/startOfDay/hoursInDay over random synthetic zones.
use super::Tracer;
use crate::gen::*;
use crate::rng::Rng;
use serde_json::json;

pub fn drive(t: &mut Tracer, r: &mut Rng, n: usize) {
    let lgs = ["year", "month", "week", "day", "hour", "minute", "second"];
    while t.n < n {
        let (zone, ats) = super::c13::rand_zone(r);
        let near = |r: &mut Rng| -> i64 { if ats.is_empty() || r.chance(1, 4) { r.range(-4 * 86_400, 40 * 86_400) } else { *r.pick(&ats) + match r.range(0, 2) { 0 => r.range(-4000, 4000), 1 => r.range(-90_000, 90_000), _ => r.range(-400_000, 400_000) } } };
        let mut cur = near(r);
        for _ in 0..r.range(5, 16) {
            match r.range(0, 13) {
                // Duration round / total / compare relative to the zoned date-time
                10..=13 => { let sg: i128 = if r.chance(1, 3) { -1 } else { 1 };
                    let m = |r: &mut Rng, p: u64, hi: i64| -> i128 { if r.chance(1, p) { r.range(0, hi) as i128 } else { 0 } };
                    let dur = dur10(sg * m(r, 8, 1), sg * m(r, 3, 3), sg * m(r, 4, 2), sg * m(r, 2, 25), sg * m(r, 2, 50), sg * m(r, 2, 90), sg * m(r, 2, 4000), 0, 0, 0);
                    match r.range(0, 3) {
                        0 | 1 => { let sm = *r.pick(&["month", "week", "day", "hour", "minute", "second", "nanosecond"][..]);
                            let lg_c: Vec<&str> = ["year", "month", "week", "day", "hour", "minute", "second"].iter().cloned().filter(|l| unit_rank(l) >= unit_rank(sm)).collect();
                            let mut lg = *r.pick(&lg_c[..]);
                            let inc = match sm { "nanosecond" => 1, "hour" => *r.pick(&[1i64, 1, 2, 3, 6, 12][..]), "minute" | "second" => *r.pick(&[1i64, 1, 5, 15, 30][..]), _ => if r.chance(1, 4) { lg = sm; r.range(2, 4) } else { 1 } };
                            t.call("ZDur.round", json!({"zone": zone, "t": cur, "recv": dur, "st": {"largest": lg, "smallest": sm, "inc": inc, "mode": *r.pick(&MODES[..])}})); }
                        2 => { t.call("ZDur.total", json!({"zone": zone, "t": cur, "recv": dur, "unit": *r.pick(&["year", "month", "week", "day", "hour", "minute", "second"][..])})); }
                        _ => { let other = dur10(0, 0, 0, sg * r.range(0, 60) as i128, sg * m(r, 2, 50), 0, 0, 0, 0, 0);
                            t.call("ZDur.compare", json!({"zone": zone, "t": cur, "recv": dur, "other": other})); }
                    } }
                0..=2 => { let sg: i128 = if r.chance(1, 2) { 1 } else { -1 };
                    let m = |r: &mut Rng, hi: i64| -> i128 { if r.chance(1, 2) { 0 } else { r.range(0, hi) as i128 } };
                    let dur = dur10(0, sg * m(r, 2), sg * m(r, 2), sg * m(r, 5), sg * m(r, 30), sg * m(r, 90), sg * m(r, 4000), 0, 0, 0);
                    let op = if r.chance(1, 2) { "Zoned.add" } else { "Zoned.subtract" };
                    let out = t.call(op, json!({"zone": zone, "t": cur, "dur": dur}));
                    if out["kind"] == "ok" { if let Some(v) = out["val"].as_i64() { if v.abs() < 400 * 86_400 { cur = v; } } } }
                3..=6 => { let other = if r.chance(1, 3) { cur + r.range(-90_000, 90_000) } else { near(r) };
                    let op = if r.chance(1, 2) { "Zoned.until" } else { "Zoned.since" };
                    // a third of the differences carry rounding options (smallest unit, increment, mode)
                    if r.chance(1, 3) {
                        let sm = *r.pick(&["month", "week", "day", "hour", "minute", "second"][..]);
                        let lg_c: Vec<&str> = ["year", "month", "week", "day", "hour", "minute", "second"].iter().cloned().filter(|l| unit_rank(l) >= unit_rank(sm)).collect();
                        let mut lg = *r.pick(&lg_c[..]);
                        let inc = match sm { "hour" => *r.pick(&[1i64, 1, 2, 3, 6, 12][..]), "minute" | "second" => *r.pick(&[1i64, 1, 5, 15, 30][..]), _ => if r.chance(1, 4) { lg = sm; r.range(2, 4) } else { 1 } };
                        let mut st = json!({"largest": lg, "smallest": sm, "inc": inc, "mode": *r.pick(&MODES[..])});
                        if r.chance(1, 5) { st.as_object_mut().unwrap().remove("largest"); }
                        t.call(op, json!({"zone": zone, "t": cur, "other": other, "st": st}));
                    } else if r.chance(1, 6) { t.call(op, json!({"zone": zone, "t": cur, "other": other, "oz": *r.pick(&["+03:00", "-09:30", "+00:00"]), "st": {"largest": *r.pick(&lgs)}}));
                    } else { t.call(op, json!({"zone": zone, "t": cur, "other": other, "st": {"largest": *r.pick(&lgs)}})); } }
                7 => { if r.chance(1, 2) { t.call("Zoned.startOfDay", json!({"zone": zone, "t": cur})); }
                       else { let sod = if r.chance(1, 3) { *r.pick(&[0i64, 1800, 3600, 7200, 9000, 10800, 86_399][..]) } else { r.range(0, 86_399) };
                              t.call("Zoned.withPlainTime", json!({"zone": zone, "t": cur, "sod": sod})); } }
                _ => { t.call("Zoned.hoursInDay", json!({"zone": zone, "t": cur})); }
            }
        }
        t.reset();
    }
}
